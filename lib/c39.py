"""C39 — data-modifying statements on memory tables follow SQL semantics.

spec/adt/MemTableDml.tla is a state machine whose state is the content of the table t(c1 BIGINT, c2 BIGINT,
c3 VARCHAR) and whose actions are INSERT ... VALUES / INSERT ... SELECT / DELETE / UPDATE statements with
predicates and assignment expressions drawn from the Expr.tla grammar (seed-threaded generator).  TLC runs the
machine, checks its sanity invariant (StepOK) on every state and prints every complete history with the
expected outcome (ok / ERR), reported count and table content after every statement.  Binding B3: every
history is rendered to SQL and executed by `vhist run` on ONE real SessionContext over a real multi-partition
MemTable; after every statement the reported count and `SELECT * FROM t` (as a bag) are compared with the
specification.  A statement whose reference evaluation is ERR may fail in the engine and must then leave the
table unchanged (or may succeed: the history is not followed further).

Two generation modes: "main" (long histories; predicates that no row can satisfy are left out) and "unsat"
(short histories of UPDATE/DELETE whose predicate is constant FALSE/NULL or contradictory: nothing may be
affected)."""
import json, collections, itertools, os
from common import *
import sqlcases

TNAME = "t"
COLS = [{"name": "c1", "kind": "i"}, {"name": "c2", "kind": "i"}, {"name": "c3", "kind": "s"}, {"name": "c4", "kind": "b"}]

SUBFORMS = ("del_in", "del_notin", "del_exists", "del_scalar", "upd_in", "upd_notexists", "upd_scalar")
K_EMPTYREL = "update-delete-where-folded-to-false-affects-all-rows"
K_PARTIAL = "failed-update-delete-partially-applied"
K_CSE = "update-delete-common-subexpression-unknown-field"


# ----------------------------------------------------------------------------- TLC

def gen(ctx, tag, nh, length, mode, seed, br=1, edepth=2, mut="none", workers=4):
    cfg = ctx.path(f"{tag}.cfg")
    with open(cfg, "w") as f:
        f.write(f'CONSTANTS NH = {nh}  LEN = {length}  BR = {br}  EDEPTH = {edepth}  MAXT = 12  LIMIT = 200  '
                f'MODE = "{mode}"  MUT = "{mut}"\n')
        f.write("SPECIFICATION Spec\nINVARIANTS StepOK Emit\nCHECK_DEADLOCK FALSE\n")
    r = tlc(ctx, "adt/MemTableDml", cfg=cfg, workers=workers, mode_args=["-seed", str(seed)], tag=tag, xss="64m",
            deadlock=False, timeout=3000)
    if not r.ok or r.invariant_violated:
        sys.stderr.write(r.out[-4000:])
        raise ToolError(f"TLC failed on MemTableDml ({tag}): specification-level error")
    cases = tlc_cases(r.out)
    for i, c in enumerate(cases):
        c["id"] = f"{tag}-{c['seed']}-{i}"        # several histories share a seed when BR > 1
        c["mode"] = mode
    return cases, r


# ----------------------------------------------------------------------------- rendering

def plain_lit(v, variant=0):
    k = v["k"]
    if k == "n":
        return "NULL"
    if k == "b":
        return "TRUE" if v["v"] == 1 else "FALSE"
    if k == "i":
        # VALUES entries are literals, casts or constant expressions
        if variant % 4 == 1:
            return f"CAST({v['v']} AS BIGINT)"
        if variant % 4 == 2:
            return f"({v['v'] - 1} + 1)"
        return str(v["v"])
    if k == "s":
        return "'" + sqlcases.STR_POOL[v["v"]] + "'"
    raise ValueError(v)


def render_stmt(st, variant, u8v=False):
    """SQL text of one statement AST.  `variant` (an int derived from the history seed and the step index)
    selects between equivalent spellings: qualified column references, an alias on the UPDATE target, an
    explicit column list for a full-width INSERT."""
    rs = sqlcases.R()
    qual = ["", "t.", ""][variant % 3]
    alias = st["kind"] == "update" and variant % 5 == 1
    if alias:
        qual = "x."
    ref = lambda i: f"{qual}c{i}"

    def noouter(i):
        raise ValueError("outer")
    # a typed NULL string literal is written in the column's own type: with `CAST(NULL AS VARCHAR)` (= Utf8View) over a
    # Utf8 column, UPDATE ... SET c3 = CASE WHEN p THEN c3 ELSE CAST(NULL AS VARCHAR) END fails in the engine
    # ("arguments need to have the same data type", see findings/C39-update-case-type-mismatch.md)
    nullstr = "CAST(NULL AS VARCHAR)" if u8v else "arrow_cast(NULL, 'Utf8')"
    X = lambda e, r=ref: sqlcases.expr_sql(e, r, noouter, rs).replace("CAST(NULL AS VARCHAR)", nullstr)
    kind = st["kind"]
    collist = ""
    if kind in ("insert", "insel") and not (st["cols"] == [1, 2, 3, 4] and variant % 2 == 0):
        # column names in an INSERT list are identifiers: unquoted upper case folds to the column
        collist = " (" + ", ".join((f"C{c}" if variant % 3 == 1 else f"c{c}") for c in st["cols"]) + ")"
    if kind == "reject":
        return render_reject(st, variant)
    if kind == "insert":
        vals = ", ".join("(" + ", ".join(plain_lit(v, variant + j) for j, v in enumerate(row)) + ")" for row in st["rows"])
        return f"INSERT INTO t{collist} VALUES {vals}"
    if kind == "insel":
        src = st["src"]
        sq = ["", src + ".", ""][variant % 3]
        sref = lambda i: f"{sq}c{i}"
        # every select item gets its own alias (the engine rejects two projection items with one name)
        sel = ", ".join(f"{X(e, sref)} AS x{j+1}" for j, e in enumerate(st["es"]))
        sql = f"INSERT INTO t{collist} SELECT {sel} FROM {src}"
        if st["hp"]:
            sql += f" WHERE {X(st['p'], sref)}"
        return sql
    if kind == "delete":
        return "DELETE FROM t" + (f" WHERE {X(st['p'])}" if st["hp"] else "")
    if kind == "update":
        sets = ", ".join(f"c{c} = {X(e)}" for c, e in zip(st["cols"], st["es"]))
        return f"UPDATE t{' AS x' if alias else ''} SET {sets}" + (f" WHERE {X(st['p'])}" if st["hp"] else "")
    raise ValueError(kind)


def render_reject(st, variant):
    """Statements that must be refused without touching the table (see GenReject in the specification)."""
    f = st["src"]
    sc, tc = (st["cols"] + [1, 1])[:2]
    fixed = {
        "ins_overwrite": "INSERT OVERWRITE t VALUES (1, 2, 'a', TRUE)",
        "replace_into": "REPLACE INTO t VALUES (1, 2, 'a', TRUE)",
        "ins_arity_less": "INSERT INTO t VALUES (1, 2, 'a')",
        "ins_arity_more": "INSERT INTO t (c1, c2) VALUES (1, 2, 3)",
        "ins_unknown_col": "INSERT INTO t (c1, nosuch) VALUES (1, 2)",
        "ins_dup_col": "INSERT INTO t (c1, C1) VALUES (1, 2)",
        "upd_unknown_col": "UPDATE t SET nosuch = 1",
        "upd_unknown_table": "UPDATE nosuch SET c1 = 1",
        "del_unknown_table": "DELETE FROM nosuch WHERE c1 = 1",
        "ins_badcast": "INSERT INTO t (c3, c1) VALUES ('a', 'x')",
        "upd_scalar_set": "UPDATE t SET c1 = (SELECT max(c2) FROM s) WHERE c2 IS NOT NULL",
        "upd_from": "UPDATE t SET c1 = s.c1 FROM s WHERE t.c2 = s.c2",
        "upd_tuple": "UPDATE t SET (c1, c2) = (1, 2)",
        "ins_multipart": "INSERT INTO t (t.c1) VALUES (1)",
        "del_in": f"DELETE FROM t WHERE c{tc} IN (SELECT c{sc} FROM s)",
        "del_notin": f"DELETE FROM t WHERE c{tc} NOT IN (SELECT c{sc} FROM s)",
        "del_exists": f"DELETE FROM t WHERE EXISTS (SELECT 1 FROM s WHERE s.c{sc} = t.c{tc})",
        "del_scalar": f"DELETE FROM t WHERE c{tc} > (SELECT max(c{sc}) FROM s)",
        "upd_in": f"UPDATE t SET c1 = 9 WHERE c{tc} IN (SELECT c{sc} FROM s)",
        "upd_notexists": f"UPDATE t SET c1 = 9 WHERE NOT EXISTS (SELECT 1 FROM s WHERE s.c{sc} = t.c{tc})",
        "upd_scalar": f"UPDATE t SET c1 = 9 WHERE c{tc} >= (SELECT max(c{sc}) FROM s)",
    }
    return fixed[f]


def _leaf(e):
    return e["op"] in ("col", "lit")


def string_types(c):
    """(t_utf8view, s_utf8view): Utf8 / Utf8View for the string columns of t and s.  Mixed types are used whenever
    they are safe: INSERT .. SELECT from a Utf8View source into a Utf8 table stores a Utf8View batch when the string
    expression is a CASE/COALESCE (cast decided before type coercion, findings/C39-update-case-type-mismatch.md),
    so that combination is only used when every string expression selected from s is a column or a literal."""
    m = c["seed"] % 4
    if m == 0:
        return False, False
    if m == 1:
        return True, True
    if m == 2:
        return True, False
    safe = all(_leaf(e) for s in c["steps"] if s["st"]["kind"] == "insel" and s["st"]["src"] == "s"
               for col, e in zip(s["st"]["cols"], s["st"]["es"]) if col == 3)
    return (False, True) if safe else (False, False)


def nl_key(v):
    return (1, 0) if v["k"] == "n" else (0, v["v"])


Q_SORTED = "SELECT c1 FROM t ORDER BY c1 ASC NULLS LAST"


def prepared(st, variant, i):
    """Every 3rd INSERT .. VALUES goes through PREPARE (parameter types inferred from the target columns) + EXECUTE."""
    if st["kind"] != "insert" or variant % 3 != 0:
        return None
    cols = st["cols"]
    collist = "" if cols == [1, 2, 3, 4] else " (" + ", ".join(f"c{c}" for c in cols) + ")"
    w = len(cols)
    rows = ", ".join("(" + ", ".join(f"${r * w + j + 1}" for j in range(w)) + ")" for r in range(len(st["rows"])))
    args = ", ".join(plain_lit(v) for row in st["rows"] for v in row)
    return [f"PREPARE p{i} AS INSERT INTO t{collist} VALUES {rows}"], f"EXECUTE p{i}({args})"


def render_history(c):
    steps = []
    u8v, s_u8v = string_types(c)
    c["layout"] = {"t_utf8view": u8v, "s_utf8view": s_u8v, "sorted": c["seed"] % 3 != 0, "empty_batch": c["seed"] % 5 < 2,
                   "defaults": bool(c["dflt"]), "partitions": len(c["parts0"]), "batch_rows": c["batch"]}
    for i, s in enumerate(c["steps"]):
        sql = render_stmt(s["st"], c["seed"] + 7 * i, u8v)
        pre = []
        pp = prepared(s["st"], c["seed"] + 7 * i, i)
        if pp:
            pre, sql = pp
            s["prepared"] = True
        s["sql"] = "; ".join(pre + [sql])
        steps.append({"sql": sql, "pre": pre, "obs": ["SELECT * FROM t", Q_SORTED], "plan": bool(s["unsat"])})
    t = {"name": "t", "cols": COLS, "parts": c["parts0"], "batch_rows": c["batch"], "utf8view": u8v,
         "empty_batch": c["layout"]["empty_batch"]}
    if c["layout"]["sorted"]:
        # the table declares "sorted by c1 ASC NULLS LAST" (every partition is): any DML must drop that claim
        t["parts"] = [sorted(p, key=lambda r: nl_key(r[0])) for p in c["parts0"]]
        t["sort"] = ["c1"]
    if c["dflt"]:
        t["defaults"] = {"c2": {"k": "i", "v": 5}, "c3": {"k": "s", "v": 2}}
    return {"id": c["id"], "config": {"target_partitions": c["tp"]},
            "tables": [t, {"name": "s", "cols": COLS, "parts": [c["srows"]], "batch_rows": 1, "utf8view": s_u8v}],
            "steps": steps}


# ----------------------------------------------------------------------------- oracle

def flat(parts):
    return [r for p in parts for r in p]


def partial_explains(fx, got_rows):
    """Could the observed table be the result of applying the (failing) statement to SOME of the rows it
    affects?  fx = per-row effects from the specification (keep / chg with new row / err)."""
    kind_delete = None
    chg = [i for i, f in enumerate(fx) if f["o"] == "chg"]
    if len(chg) > 14:
        return False
    want = sqlcases.bag(got_rows)
    for n in range(1, len(chg) + 1):
        for sub in itertools.combinations(chg, n):
            ss = set(sub)
            rows = []
            for i, f in enumerate(fx):
                if i in ss:
                    if f.get("deleted"):
                        continue
                    rows.append(f["r"])
                else:
                    rows.append(f["orig"])
            if sqlcases.bag(rows) == want:
                return True
    return False


def check_history(c, res):
    """Compare one executed history with the specification.  Returns (compared_steps, stop_reason, problem)
    where problem = None or dict(step, msg, key)."""
    before = flat(c["parts0"])
    if res.get("setup_err"):
        raise ToolError(f"history setup failed: {res['setup_err']}")
    n = 0
    for i, (s, r) in enumerate(zip(c["steps"], res["steps"])):
        st = s["st"]
        obs = r["obs"][0]
        P = lambda msg, key=None: (n, "problem", {"step": i, "msg": msg, "key": key})
        if r.get("panic"):
            return P("engine panicked: " + (r.get("err") or "")[:300])
        if not obs["ok"]:
            return P("SELECT * FROM t failed after the statement: " + (obs.get("err") or "")[:300])
        got = obs["rows"]
        unchanged = sqlcases.bag(got) == sqlcases.bag(before)
        # ORDER BY must really order (a table that still claims its initial sort order after DML would not be sorted)
        ob2 = r["obs"][1]
        if not ob2["ok"]:
            return P("ORDER BY query failed after the statement: " + (ob2.get("err") or "")[:300])
        keys = [nl_key(x[0]) for x in ob2["rows"]]
        if keys != sorted(keys) or sorted(keys) != sorted(nl_key(x[0]) for x in got):
            return P(f"SELECT c1 FROM t ORDER BY c1 ASC NULLS LAST returned {[x[0] for x in ob2['rows']]}: not the sorted c1 column of the table")
        if st["kind"] == "reject":
            if not r["ok"]:
                if not unchanged:
                    return P("the statement was refused but the table content changed")
                n += 1
                continue
            # a subquery form that the engine executes must have exactly its SQL meaning
            if st["src"] not in SUBFORMS:
                return P("a statement that must be refused (malformed / not implemented for memory tables) was accepted")
            if s["alt"]["err"]:
                return n, "ref_err_engine_ok", None
            cnt = r["rows"][0][0]["v"] if r["rows"] and r["rows"][0] else None
            if cnt != s["alt"]["count"] or sqlcases.bag(got) != sqlcases.bag(s["alt"]["after"]):
                return P(f"UPDATE/DELETE with a subquery was executed with a wrong effect: count {cnt} (SQL meaning: "
                         f"{s['alt']['count']}), {len(got)} rows afterwards (SQL meaning: {len(s['alt']['after'])})")
            return n, "subquery_form_executed_correctly", None
        if s["err"]:
            if r["ok"]:
                return n, "ref_err_engine_ok", None      # evaluation order is open: not followed further
            if not unchanged:
                fx = []
                scanned = before
                for f, orig in zip(s["fx"], scanned):
                    fx.append({"o": f["o"], "r": f["r"], "orig": orig, "deleted": st["kind"] == "delete"})
                if st["kind"] in ("update", "delete") and partial_explains(fx, got):
                    return P("the statement failed (evaluation error) but the table was modified: the statement was "
                             "applied to some of the rows it affects", K_PARTIAL)
                return P("the statement failed but the table content changed")
            n += 1
            continue
        if not r["ok"]:
            err = r.get("err") or ""
            key = None
            if "No field named __common_expr_" in err and unchanged and st["kind"] in ("update", "delete"):
                key = K_CSE
            return P("engine failed but the reference evaluates the statement without error: " + err[:300], key)
        # both succeed: count and content
        cnt = r["rows"][0][0]["v"] if r["rows"] and r["rows"][0] else None
        msgs = []
        if len(r["rows"]) != 1 or cnt != s["count"]:
            msgs.append(f"reported count {cnt} but {s['count']} rows are affected")
        if sqlcases.bag(got) != sqlcases.bag(s["after"]):
            msgs.append(f"table content differs from the reference after the statement "
                        f"(engine {len(got)} rows, reference {len(s['after'])} rows)")
        if msgs:
            key = None
            lplan = r.get("lplan") or ""
            if (s["unsat"] and st["kind"] in ("update", "delete") and "EmptyRelation" in lplan and "TableScan" not in lplan
                    and cnt == len(before) and
                    ((st["kind"] == "delete" and len(got) == 0) or (st["kind"] == "update" and unchanged))):
                key = K_EMPTYREL
            return P("; ".join(msgs), key)
        before = s["after"]
        n += 1
    return n, "complete", None


# ----------------------------------------------------------------------------- main

def execute(ctx, cases, tag):
    inp, out = ctx.path(f"{tag}.in.ndjson"), ctx.path(f"{tag}.out.ndjson")
    write_ndjson(inp, [render_history(c) for c in cases])
    summary, _ = run_harness(ctx, "vhist", ["run", "--in", inp, "--out", out], timeout=3000)
    res = {r["id"]: r for r in read_ndjson(out)}
    return res, summary


def evaluate(ctx, cases, res, stats, report=True):
    flagged = 0
    for c in cases:
        n, why, prob = check_history(c, res[c["id"]])
        stats["steps_compared"] += n
        stats["stop:" + why] += 1
        lay = c.get("layout", {})
        for f in ("sorted", "empty_batch", "defaults"):
            if lay.get(f) and n:
                stats["layout:" + f] += 1
        if n:
            stats[f"layout:strings t={'Utf8View' if lay.get('t_utf8view') else 'Utf8'} s={'Utf8View' if lay.get('s_utf8view') else 'Utf8'}"] += 1
            stats[f"layout:partitions={lay.get('partitions')} batch_rows={lay.get('batch_rows')}"] += 1
        for s in c["steps"][:n]:
            k = s["st"]["kind"] + ("+where" if s["st"]["hp"] else "")
            stats["kind:" + k] += 1
            if s["st"]["kind"] == "reject":
                stats["reject:" + s["st"]["src"]] += 1
            if s["st"]["kind"] in ("insert", "insel") and lay.get("defaults") and not {2, 3} <= set(s["st"]["cols"]):
                stats["insert_filling_declared_default"] += 1
            if s["st"]["kind"] in ("update", "delete") and s["unsat"]:
                stats["unsatisfiable_predicate_steps"] += 1
            if s.get("prepared"):
                stats["insert_through_prepare_execute"] += 1
            if "UPDATE t AS x" in s["sql"]:
                stats["update_with_alias"] += 1
            if " t.c" in s["sql"] and s["st"]["kind"] in ("update", "delete"):
                stats["qualified_column_refs"] += 1
            if s["st"]["kind"] == "update" and 4 in s["st"]["cols"]:
                stats["update_boolean_column"] += 1
            if s["st"]["kind"] in ("update", "delete") and s["st"]["hp"] and s["st"]["p"]["op"] == "col":
                stats["bare_boolean_column_predicate"] += 1
            if s["st"]["kind"] in ("update", "delete") and s["st"]["hp"] and s["st"]["p"]["op"] == "bin" and s["st"]["p"]["f"] == "and":
                stats["conjunction_predicate_split_into_filters"] += 1
            if s["err"]:
                stats["ref_err_steps_checked_unchanged"] += 1
            elif s["st"]["kind"] in ("update", "delete"):
                if 0 < s["count"] < s["before"]:
                    stats["partial_effect_steps"] += 1
                if s["count"] == 0:
                    stats["no_effect_steps"] += 1
        if prob:
            flagged += 1
            if report:
                i = prob["step"]
                report_violation(ctx, {"case": c, "step": i, "sql": [s["sql"] for s in c["steps"]],
                                       "engine": res[c["id"]]["steps"][i], "oracle": prob["msg"]}, key=prob["key"])
                stats["known:" + str(prob["key"])] += 1
    return flagged


def selftest(ctx):
    """Not registered.  (1) wrong reference models (MUT) must disagree with the engine on the generated
    histories; (2) corrupted expectations must be flagged."""
    out = {}
    for mut in ["sequpd", "nulltrue", "countall"]:
        cases, _ = gen(ctx, "mut-" + mut, 150, 5, "main", ctx.seed, mut=mut)
        res, _ = execute(ctx, cases, "mut-" + mut)
        st = collections.Counter()
        out[mut] = [evaluate(ctx, cases, res, st, report=False), len(cases)]
    print("SELFTEST model-side mutants: histories flagged / histories:", json.dumps(out))
    if any(v[0] == 0 for v in out.values()):
        raise ToolError("selftest: a wrong reference model was not distinguished from the engine")
    return out


def run(ctx):
    build("vhist")
    if os.environ.get("VERIF_SELFTEST"):
        selftest(ctx)
    if ctx.replay:
        rp = json.load(open(ctx.replay))
        cases = [rp["case"]]
        states = transitions = 1
    else:
        w = 4 if ctx.quick else 8
        specs = [("main", 180, 5, "main", ctx.seed, 1), ("unsat", 40, 2, "unsat", ctx.seed + 500, 1)] if ctx.quick else \
                [("main", 1000, 5, "main", ctx.seed, 1), ("deep", 200, 8, "main", ctx.seed + 1000, 1),
                 ("tree", 40, 4, "main", ctx.seed + 2000, 2), ("unsat", 300, 2, "unsat", ctx.seed + 500, 1)]
        cases, states, transitions = [], 0, 0
        for tag, nh, ln, mode, sd, br in specs:
            cs, r = gen(ctx, tag, nh, ln, mode, sd, br=br, workers=w)
            if len(cs) < nh:
                raise ToolError(f"TLC printed {len(cs)} histories for {tag}, expected >= {nh}")
            cases += cs
            states += r.distinct
            transitions += r.generated
    res, summary = execute(ctx, cases, "hist")
    stats = collections.Counter()
    evaluate(ctx, cases, res, stats)
    # vacuity: every statement kind must have been compared, with affected and unaffected rows
    if not ctx.replay:
        need = ["kind:insert", "kind:insel", "kind:insel+where", "kind:delete", "kind:delete+where", "kind:update",
                "kind:update+where", "partial_effect_steps", "no_effect_steps", "ref_err_steps_checked_unchanged",
                "layout:sorted", "layout:empty_batch", "layout:defaults", "insert_filling_declared_default",
                "layout:strings t=Utf8 s=Utf8", "layout:strings t=Utf8View s=Utf8View", "layout:strings t=Utf8View s=Utf8",
                "unsatisfiable_predicate_steps", "update_with_alias", "qualified_column_refs", "update_boolean_column",
                "bare_boolean_column_predicate", "conjunction_predicate_split_into_filters", "insert_through_prepare_execute"]
        if not ctx.quick:
            need += ["layout:strings t=Utf8 s=Utf8View", "known_or_stop"] [:1]
        missing = [k for k in need if stats[k] == 0]
        forms = [k for k in stats if k.startswith("reject:") and stats[k] > 0]
        allforms = 21
        if len(forms) < (13 if ctx.quick else allforms):
            missing.append(f"reject forms compared: only {len(forms)} of {allforms}")
        multi = sum(v for k, v in stats.items() if k.startswith("layout:partitions=") and not k.startswith("layout:partitions=1 "))
        if multi == 0:
            missing.append("multi-partition tables")
        if missing:
            raise ToolError(f"vacuity: never compared {missing}")
    samples = []
    for c in cases[:2]:
        samples.append({"id": c["id"], "partitions": [len(p) for p in c["parts0"]], "batch_rows": c["batch"],
                        "steps": [{"sql": s["sql"], "expect_err": s["err"], "expect_count": s["count"],
                                   "expect_rows_after": len(s["after"])} for s in c["steps"]]})
    distinct_sql = len({s["sql"] for c in cases for s in c["steps"]})
    write_evidence(ctx, "model_checking", {
        "states": states, "transitions": transitions, "traces_validated_against_impl": len(cases),
        "samples": samples, "statements_compared": stats["steps_compared"], "distinct_statements": distinct_sql,
        "sql_statements_executed": (summary or {}).get("statements"),
        "breakdown": dict(sorted(stats.items())),
    }, assumptions=[
        "B3 behaviour replay: TLC (spec/adt/MemTableDml.tla) generates statement histories with the expected outcome, count and "
        "table bag after every statement; the AST->SQL renderer (lib/sqlcases.expr_sql, lib/c39.py) is trusted",
        "scope: t(c1 BIGINT,c2 BIGINT,c3 VARCHAR,c4 BOOLEAN) created with 1..3 partitions x 0..3 rows, batches of 1/2/all rows (optionally a "
        "zero-row batch per partition), Utf8/Utf8View strings for t and s independently, optional declared sort order (checked by an ORDER BY "
        "read after every statement) and declared column defaults, ints "
        "{NULL,-1,0,1,2} drifting up to |200|, 3-entry string pool, expression depth <= 2, table <= 12 rows",
        "a statement whose reference evaluation is ERR (division by zero) may fail (table must stay unchanged) or succeed "
        "(history not followed further); placement of inserted rows among partitions is not specified (bag oracle)",
        "TRUNCATE is not implemented for MemTable at this commit and is not generated; statements that must be refused (malformed, INSERT "
        "OVERWRITE / REPLACE INTO, subqueries in UPDATE/DELETE) must fail and leave the table unchanged - a subquery form that is executed "
        "instead must have exactly its SQL meaning (computed by the specification)",
        "binding demonstrated with model-side mutants (VERIF_SELFTEST=1): a reference that evaluates assignments sequentially, "
        "treats a NULL predicate as true, or reports the table size as count is contradicted by the engine on the generated histories",
    ])
