"""C39 — data-modifying statements on memory tables follow SQL semantics.

spec/adt/MemTableDml.tla is a state machine whose state is the content of the table t(c1 BIGINT, c2 BIGINT,
c3 VARCHAR) and whose actions are INSERT ... VALUES / INSERT ... SELECT / DELETE / UPDATE statements with
predicates and assignment expressions drawn from the Expr.tla grammar (seed-threaded generator).  TLC runs the
machine, checks its sanity invariant (StepOK) on every state and prints every complete history with the
expected outcome (ok / ERR), reported count and table content after every statement.  Binding B3: every
history is rendered to SQL and executed by `vhist run` on ONE real SessionContext over a real multi-partition
MemTable; after every statement the reported count and `SELECT * FROM t` (as a bag) are compared with the
specification.  A statement whose reference evaluation is ERR may fail in the engine and must then leave the
table unchanged (or may succeed: the history is not followed further).

Two generation modes: "main" (long histories; predicates that no row can satisfy are left out) and "unsat"
(short histories of UPDATE/DELETE whose predicate is constant FALSE/NULL or contradictory: nothing may be
affected)."""
import json, collections, itertools, os
from common import *
import sqlcases

TNAME = "t"
COLS = [{"name": "c1", "kind": "i"}, {"name": "c2", "kind": "i"}, {"name": "c3", "kind": "s"}]

K_EMPTYREL = "update-delete-where-folded-to-false-affects-all-rows"
K_PARTIAL = "failed-update-delete-partially-applied"
K_CSE = "update-delete-common-subexpression-unknown-field"


# ----------------------------------------------------------------------------- TLC

def gen(ctx, tag, nh, length, mode, seed, br=1, edepth=2, mut="none", workers=4):
    cfg = ctx.path(f"{tag}.cfg")
    with open(cfg, "w") as f:
        f.write(f'CONSTANTS NH = {nh}  LEN = {length}  BR = {br}  EDEPTH = {edepth}  MAXT = 12  LIMIT = 200  '
                f'MODE = "{mode}"  MUT = "{mut}"\n')
        f.write("SPECIFICATION Spec\nINVARIANTS StepOK Emit\nCHECK_DEADLOCK FALSE\n")
    r = tlc(ctx, "adt/MemTableDml", cfg=cfg, workers=workers, mode_args=["-seed", str(seed)], tag=tag, xss="64m",
            deadlock=False, timeout=3000)
    if not r.ok or r.invariant_violated:
        sys.stderr.write(r.out[-4000:])
        raise ToolError(f"TLC failed on MemTableDml ({tag}): specification-level error")
    cases = tlc_cases(r.out)
    for i, c in enumerate(cases):
        c["id"] = f"{tag}-{c['seed']}-{i}"        # several histories share a seed when BR > 1
        c["mode"] = mode
    return cases, r


# ----------------------------------------------------------------------------- rendering

def plain_lit(v):
    k = v["k"]
    if k == "n":
        return "NULL"
    if k == "i":
        return str(v["v"])
    if k == "s":
        return "'" + sqlcases.STR_POOL[v["v"]] + "'"
    raise ValueError(v)


def render_stmt(st, variant, u8v=False):
    """SQL text of one statement AST.  `variant` (an int derived from the history seed and the step index)
    selects between equivalent spellings: qualified column references, an alias on the UPDATE target, an
    explicit column list for a full-width INSERT."""
    rs = sqlcases.R()
    qual = ["", "t.", ""][variant % 3]
    alias = st["kind"] == "update" and variant % 5 == 1
    if alias:
        qual = "x."
    ref = lambda i: f"{qual}c{i}"

    def noouter(i):
        raise ValueError("outer")
    # a typed NULL string literal is written in the column's own type: with `CAST(NULL AS VARCHAR)` (= Utf8View) over a
    # Utf8 column, UPDATE ... SET c3 = CASE WHEN p THEN c3 ELSE CAST(NULL AS VARCHAR) END fails in the engine
    # ("arguments need to have the same data type", see findings/C39-update-case-type-mismatch.md)
    nullstr = "CAST(NULL AS VARCHAR)" if u8v else "arrow_cast(NULL, 'Utf8')"
    X = lambda e, r=ref: sqlcases.expr_sql(e, r, noouter, rs).replace("CAST(NULL AS VARCHAR)", nullstr)
    kind = st["kind"]
    collist = ""
    if kind in ("insert", "insel") and not (st["cols"] == [1, 2, 3] and variant % 2 == 0):
        collist = " (" + ", ".join(f"c{c}" for c in st["cols"]) + ")"
    if kind == "insert":
        vals = ", ".join("(" + ", ".join(plain_lit(v) for v in row) + ")" for row in st["rows"])
        return f"INSERT INTO t{collist} VALUES {vals}"
    if kind == "insel":
        src = st["src"]
        sq = ["", src + ".", ""][variant % 3]
        sref = lambda i: f"{sq}c{i}"
        # every select item gets its own alias (the engine rejects two projection items with one name)
        sel = ", ".join(f"{X(e, sref)} AS x{j+1}" for j, e in enumerate(st["es"]))
        sql = f"INSERT INTO t{collist} SELECT {sel} FROM {src}"
        if st["hp"]:
            sql += f" WHERE {X(st['p'], sref)}"
        return sql
    if kind == "delete":
        return "DELETE FROM t" + (f" WHERE {X(st['p'])}" if st["hp"] else "")
    if kind == "update":
        sets = ", ".join(f"c{c} = {X(e)}" for c, e in zip(st["cols"], st["es"]))
        return f"UPDATE t{' AS x' if alias else ''} SET {sets}" + (f" WHERE {X(st['p'])}" if st["hp"] else "")
    raise ValueError(kind)


def render_history(c):
    steps = []
    u8v = c["seed"] % 2 == 1          # string column as Utf8View (what CREATE TABLE ... VARCHAR gives) or Utf8
    for i, s in enumerate(c["steps"]):
        sql = render_stmt(s["st"], c["seed"] + 7 * i, u8v)
        s["sql"] = sql
        steps.append({"sql": sql, "obs": ["SELECT * FROM t"], "plan": bool(s["unsat"])})
    return {"id": c["id"], "config": {"target_partitions": c["tp"]},
            "tables": [{"name": "t", "cols": COLS, "parts": c["parts0"], "batch_rows": c["batch"], "utf8view": u8v},
                       {"name": "s", "cols": COLS, "parts": [c["srows"]], "batch_rows": 1, "utf8view": u8v}],
            "steps": steps}


# ----------------------------------------------------------------------------- oracle

def flat(parts):
    return [r for p in parts for r in p]


def partial_explains(fx, got_rows):
    """Could the observed table be the result of applying the (failing) statement to SOME of the rows it
    affects?  fx = per-row effects from the specification (keep / chg with new row / err)."""
    kind_delete = None
    chg = [i for i, f in enumerate(fx) if f["o"] == "chg"]
    if len(chg) > 14:
        return False
    want = sqlcases.bag(got_rows)
    for n in range(1, len(chg) + 1):
        for sub in itertools.combinations(chg, n):
            ss = set(sub)
            rows = []
            for i, f in enumerate(fx):
                if i in ss:
                    if f.get("deleted"):
                        continue
                    rows.append(f["r"])
                else:
                    rows.append(f["orig"])
            if sqlcases.bag(rows) == want:
                return True
    return False


def check_history(c, res):
    """Compare one executed history with the specification.  Returns (compared_steps, stop_reason, problem)
    where problem = None or dict(step, msg, key)."""
    before = flat(c["parts0"])
    if res.get("setup_err"):
        raise ToolError(f"history setup failed: {res['setup_err']}")
    n = 0
    for i, (s, r) in enumerate(zip(c["steps"], res["steps"])):
        st = s["st"]
        obs = r["obs"][0]
        P = lambda msg, key=None: (n, "problem", {"step": i, "msg": msg, "key": key})
        if r.get("panic"):
            return P("engine panicked: " + (r.get("err") or "")[:300])
        if not obs["ok"]:
            return P("SELECT * FROM t failed after the statement: " + (obs.get("err") or "")[:300])
        got = obs["rows"]
        unchanged = sqlcases.bag(got) == sqlcases.bag(before)
        if s["err"]:
            if r["ok"]:
                return n, "ref_err_engine_ok", None      # evaluation order is open: not followed further
            if not unchanged:
                fx = []
                scanned = before
                for f, orig in zip(s["fx"], scanned):
                    fx.append({"o": f["o"], "r": f["r"], "orig": orig, "deleted": st["kind"] == "delete"})
                if st["kind"] in ("update", "delete") and partial_explains(fx, got):
                    return P("the statement failed (evaluation error) but the table was modified: the statement was "
                             "applied to some of the rows it affects", K_PARTIAL)
                return P("the statement failed but the table content changed")
            n += 1
            continue
        if not r["ok"]:
            err = r.get("err") or ""
            key = None
            if "No field named __common_expr_" in err and unchanged and st["kind"] in ("update", "delete"):
                key = K_CSE
            return P("engine failed but the reference evaluates the statement without error: " + err[:300], key)
        # both succeed: count and content
        cnt = r["rows"][0][0]["v"] if r["rows"] and r["rows"][0] else None
        msgs = []
        if len(r["rows"]) != 1 or cnt != s["count"]:
            msgs.append(f"reported count {cnt} but {s['count']} rows are affected")
        if sqlcases.bag(got) != sqlcases.bag(s["after"]):
            msgs.append(f"table content differs from the reference after the statement "
                        f"(engine {len(got)} rows, reference {len(s['after'])} rows)")
        if msgs:
            key = None
            lplan = r.get("lplan") or ""
            if (s["unsat"] and st["kind"] in ("update", "delete") and "EmptyRelation" in lplan and "TableScan" not in lplan
                    and cnt == len(before) and
                    ((st["kind"] == "delete" and len(got) == 0) or (st["kind"] == "update" and unchanged))):
                key = K_EMPTYREL
            return P("; ".join(msgs), key)
        before = s["after"]
        n += 1
    return n, "complete", None


# ----------------------------------------------------------------------------- main

def execute(ctx, cases, tag):
    inp, out = ctx.path(f"{tag}.in.ndjson"), ctx.path(f"{tag}.out.ndjson")
    write_ndjson(inp, [render_history(c) for c in cases])
    summary, _ = run_harness(ctx, "vhist", ["run", "--in", inp, "--out", out], timeout=3000)
    res = {r["id"]: r for r in read_ndjson(out)}
    return res, summary


def evaluate(ctx, cases, res, stats, report=True):
    flagged = 0
    for c in cases:
        n, why, prob = check_history(c, res[c["id"]])
        stats["steps_compared"] += n
        stats["stop:" + why] += 1
        for s in c["steps"][:n]:
            k = s["st"]["kind"] + ("+where" if s["st"]["hp"] else "")
            stats["kind:" + k] += 1
            if s["err"]:
                stats["ref_err_steps_checked_unchanged"] += 1
            elif s["st"]["kind"] in ("update", "delete"):
                if 0 < s["count"] < s["before"]:
                    stats["partial_effect_steps"] += 1
                if s["count"] == 0:
                    stats["no_effect_steps"] += 1
        if prob:
            flagged += 1
            if report:
                i = prob["step"]
                report_violation(ctx, {"case": c, "step": i, "sql": [s["sql"] for s in c["steps"]],
                                       "engine": res[c["id"]]["steps"][i], "oracle": prob["msg"]}, key=prob["key"])
                stats["known:" + str(prob["key"])] += 1
    return flagged


def selftest(ctx):
    """Not registered.  (1) wrong reference models (MUT) must disagree with the engine on the generated
    histories; (2) corrupted expectations must be flagged."""
    out = {}
    for mut in ["sequpd", "nulltrue", "countall"]:
        cases, _ = gen(ctx, "mut-" + mut, 150, 5, "main", ctx.seed, mut=mut)
        res, _ = execute(ctx, cases, "mut-" + mut)
        st = collections.Counter()
        out[mut] = [evaluate(ctx, cases, res, st, report=False), len(cases)]
    print("SELFTEST model-side mutants: histories flagged / histories:", json.dumps(out))
    if any(v[0] == 0 for v in out.values()):
        raise ToolError("selftest: a wrong reference model was not distinguished from the engine")
    return out


def run(ctx):
    build("vhist")
    if os.environ.get("VERIF_SELFTEST"):
        selftest(ctx)
    if ctx.replay:
        rp = json.load(open(ctx.replay))
        cases = [rp["case"]]
        states = transitions = 1
    else:
        w = 4 if ctx.quick else 8
        specs = [("main", 180, 5, "main", ctx.seed, 1), ("unsat", 40, 2, "unsat", ctx.seed + 500, 1)] if ctx.quick else \
                [("main", 1000, 5, "main", ctx.seed, 1), ("deep", 200, 8, "main", ctx.seed + 1000, 1),
                 ("tree", 40, 4, "main", ctx.seed + 2000, 2), ("unsat", 300, 2, "unsat", ctx.seed + 500, 1)]
        cases, states, transitions = [], 0, 0
        for tag, nh, ln, mode, sd, br in specs:
            cs, r = gen(ctx, tag, nh, ln, mode, sd, br=br, workers=w)
            if len(cs) < nh:
                raise ToolError(f"TLC printed {len(cs)} histories for {tag}, expected >= {nh}")
            cases += cs
            states += r.distinct
            transitions += r.generated
    res, summary = execute(ctx, cases, "hist")
    stats = collections.Counter()
    evaluate(ctx, cases, res, stats)
    # vacuity: every statement kind must have been compared, with affected and unaffected rows
    if not ctx.replay:
        need = ["kind:insert", "kind:insel", "kind:insel+where", "kind:delete", "kind:delete+where", "kind:update",
                "kind:update+where", "partial_effect_steps", "no_effect_steps"]
        missing = [k for k in need if stats[k] == 0]
        if missing:
            raise ToolError(f"vacuity: never compared {missing}")
    samples = []
    for c in cases[:2]:
        samples.append({"id": c["id"], "partitions": [len(p) for p in c["parts0"]], "batch_rows": c["batch"],
                        "steps": [{"sql": s["sql"], "expect_err": s["err"], "expect_count": s["count"],
                                   "expect_rows_after": len(s["after"])} for s in c["steps"]]})
    distinct_sql = len({s["sql"] for c in cases for s in c["steps"]})
    write_evidence(ctx, "model_checking", {
        "states": states, "transitions": transitions, "traces_validated_against_impl": len(cases),
        "samples": samples, "statements_compared": stats["steps_compared"], "distinct_statements": distinct_sql,
        "sql_statements_executed": (summary or {}).get("statements"),
        "breakdown": dict(sorted(stats.items())),
    }, assumptions=[
        "B3 behaviour replay: TLC (spec/adt/MemTableDml.tla) generates statement histories with the expected outcome, count and "
        "table bag after every statement; the AST->SQL renderer (lib/sqlcases.expr_sql, lib/c39.py) is trusted",
        "scope: t(c1 BIGINT,c2 BIGINT,c3 VARCHAR) created with 1..3 partitions x 0..3 rows, batches of 1/2/all rows, ints "
        "{NULL,-1,0,1,2} drifting up to |200|, 3-entry string pool, expression depth <= 2, table <= 12 rows",
        "a statement whose reference evaluation is ERR (division by zero) may fail (table must stay unchanged) or succeed "
        "(history not followed further); placement of inserted rows among partitions is not specified (bag oracle)",
        "TRUNCATE is not implemented for MemTable at this commit and is not generated; predicates contain no subqueries",
        "binding demonstrated with model-side mutants (VERIF_SELFTEST=1): a reference that evaluates assignments sequentially, "
        "treats a NULL predicate as true, or reports the table size as count is contradicted by the engine on the generated histories",
    ])
