"""Coverage corpus of C35-C38: a fixed database, external tables (CSV with/without declared order, NDJSON,
hive-partitioned CSV, Parquet), a view, SQL statements chosen so that every plan node / option the codecs carry
occurs with a non-default value that changes the text or the result, plans built through the Rust API where SQL
cannot express them, and the tag extractors that MEASURE which node/option actually occurred (coverage matrix)."""
import json, os, re

N = lambda: {"k": "n", "v": 0}
I = lambda v: {"k": "i", "v": v}
S = lambda v: {"k": "s", "v": v}      # 1:"a" 2:"ab" 3:"b"
B = lambda v: {"k": "b", "v": 1 if v else 0}
T1 = [[I(1), I(2), S(1)], [I(1), N(), S(2)], [I(2), I(0), N()], [N(), I(-1), S(3)], [I(-1), I(2), S(1)], [I(2), I(2), S(3)], [I(3), I(1), S(2)]]
T2 = [[I(1), I(1)], [N(), I(0)], [I(2), N()], [I(3), I(-1)], [I(1), I(2)], [N(), N()]]
T3 = [[I(1), S(1), B(True)], [I(2), S(2), B(False)], [N(), S(3), N()], [I(3), N(), B(True)], [I(2), S(1), B(False)]]
TABLES = [{"name": "t1", "cols": [{"name": "c1", "kind": "i"}, {"name": "c2", "kind": "i"}, {"name": "c3", "kind": "s"}], "rows": T1},
          {"name": "t2", "cols": [{"name": "c1", "kind": "i"}, {"name": "c2", "kind": "i"}], "rows": T2},
          {"name": "t3", "cols": [{"name": "c1", "kind": "i"}, {"name": "c2", "kind": "s"}, {"name": "c3", "kind": "b"}], "rows": T3}]
POOL = {1: "a", 2: "ab", 3: "b"}


def _txt(v):
    return "" if v["k"] == "n" else (POOL[v["v"]] if v["k"] == "s" else str(v["v"]))


def write_files(d):
    os.makedirs(os.path.join(d, "part", "p=1"), exist_ok=True)
    os.makedirs(os.path.join(d, "part", "p=2"), exist_ok=True)
    os.makedirs(os.path.join(d, "pq"), exist_ok=True)
    for sub in ("out", "out/s_csv", "out/s_json", "out/s_pq"):
        os.makedirs(os.path.join(d, sub), exist_ok=True)
    with open(os.path.join(d, "t1.csv"), "w") as f:
        f.write("c1,c2,c3\n" + "".join(",".join(_txt(v) for v in r) + "\n" for r in T1))
    key = lambda r: tuple((1, 0) if v["k"] == "n" else (0, v["v"]) for v in r[:2])
    with open(os.path.join(d, "t1s.csv"), "w") as f:
        f.write("c1,c2,c3\n" + "".join(",".join(_txt(v) for v in r) + "\n" for r in sorted(T1, key=key)))
    with open(os.path.join(d, "t2.json"), "w") as f:
        for r in T2:
            f.write(json.dumps({k: (None if v["k"] == "n" else v["v"]) for k, v in zip(("c1", "c2"), r)}) + "\n")
    for p, rows in ((1, T2[:3]), (2, T2[3:])):
        with open(os.path.join(d, "part", f"p={p}", "f.csv"), "w") as f:
            f.write("c1,c2\n" + "".join(",".join(_txt(v) for v in r) + "\n" for r in rows))


def setup(d):
    return [
        f"CREATE EXTERNAL TABLE e_csv (c1 BIGINT, c2 BIGINT, c3 VARCHAR) STORED AS CSV LOCATION '{d}/t1.csv' OPTIONS ('format.has_header' 'true')",
        f"CREATE EXTERNAL TABLE e_sorted (c1 BIGINT, c2 BIGINT, c3 VARCHAR) STORED AS CSV WITH ORDER (c1 ASC NULLS LAST, c2 ASC NULLS LAST) LOCATION '{d}/t1s.csv' OPTIONS ('format.has_header' 'true')",
        f"CREATE EXTERNAL TABLE e_json (c1 BIGINT, c2 BIGINT) STORED AS JSON LOCATION '{d}/t2.json'",
        f"CREATE EXTERNAL TABLE e_part (c1 BIGINT, c2 BIGINT, p BIGINT) STORED AS CSV PARTITIONED BY (p) LOCATION '{d}/part/' OPTIONS ('format.has_header' 'true')",
        f"CREATE EXTERNAL TABLE e_pq STORED AS PARQUET LOCATION '{d}/pq/'",
        "CREATE VIEW v1 AS SELECT c1, c2 + 1 AS d FROM t1 WHERE c1 IS NOT NULL",
        "CREATE VIEW v3 AS SELECT c2 AS x, c1 AS y FROM t2",
        f"CREATE EXTERNAL TABLE s_csv (c1 BIGINT, c2 BIGINT, c3 VARCHAR) STORED AS CSV LOCATION '{d}/out/s_csv/' OPTIONS ('format.has_header' 'true')",
        f"CREATE EXTERNAL TABLE s_json (c1 BIGINT, c2 BIGINT) STORED AS JSON LOCATION '{d}/out/s_json/'",
        f"CREATE EXTERNAL TABLE s_pq (c1 BIGINT, c2 BIGINT, c3 VARCHAR) STORED AS PARQUET LOCATION '{d}/out/s_pq/'",
    ]


O, C, X = "ordered", "count", "nocmp"      # compare modes: ordered sequence / row count only / no result comparison
FULL = "ORDER BY 1 NULLS FIRST, 2 NULLS FIRST, 3 NULLS FIRST"


def statements(d):
    """(sql, flags).  The first statement creates the parquet file the e_pq table reads."""
    a = []
    q = lambda s, *f: a.append((s, set(f)))
    q(f"COPY (SELECT c1, c2, c3 FROM t1) TO '{d}/pq/t1.parquet' STORED AS PARQUET", C)
    # ---- scans: formats, projection, filters, limit, partition columns, declared order
    q("SELECT c3, c1 FROM e_csv WHERE c1 > 0")
    q("SELECT c2 FROM e_csv LIMIT 3", C)
    q("SELECT c1, c2 FROM e_json WHERE c2 IS NOT NULL")
    q("SELECT p, c1 FROM e_part WHERE p = 2")
    q("SELECT p, count(*) AS n FROM e_part GROUP BY p")
    q("SELECT c3, c2 FROM e_pq WHERE c1 = 1 OR c3 = 'b'")
    q("SELECT c1 FROM e_pq WHERE c2 > 0 LIMIT 2", C)
    q("SELECT c1, c2 FROM e_sorted ORDER BY c1 ASC NULLS LAST, c2 ASC NULLS LAST", O)
    q("SELECT c1, c2 FROM e_sorted ORDER BY c1 ASC NULLS LAST LIMIT 3", C)
    q("SELECT c1, sum(c2) AS s FROM e_sorted GROUP BY c1")
    q("SELECT c1, c2, sum(c2) OVER (PARTITION BY c1 ORDER BY c2 NULLS LAST ROWS BETWEEN 1 PRECEDING AND CURRENT ROW) AS w FROM e_sorted")
    q("SELECT c1, c2, row_number() OVER (ORDER BY c1 NULLS LAST, c2 NULLS LAST) AS rn, lag(c2) OVER (ORDER BY c1 NULLS LAST, c2 NULLS LAST) AS l FROM e_sorted")
    q("SELECT c2, c1, max(c1) OVER (PARTITION BY c2 ORDER BY c1 DESC NULLS FIRST) AS m FROM e_sorted")
    q("SELECT * FROM v1 WHERE d > 1")
    # ---- joins: every type, USING / ON / natural, filters, null-equal keys, cross
    for jt in ("INNER", "LEFT", "RIGHT", "FULL", "LEFT SEMI", "LEFT ANTI", "RIGHT SEMI", "RIGHT ANTI"):
        sel = "a.c1, a.c3" if "LEFT S" in jt or "LEFT A" in jt else ("b.c1, b.c2" if "RIGHT S" in jt or "RIGHT A" in jt else "a.c1, a.c3, b.c2")
        q(f"SELECT {sel} FROM t1 a {jt} JOIN t2 b ON a.c1 = b.c1 AND a.c2 <= b.c2 + 1")
        q(f"SELECT {sel} FROM t1 a {jt} JOIN t2 b ON a.c1 = b.c1")
    q("SELECT * FROM t1 JOIN t2 USING (c1)")
    q("SELECT * FROM t1 NATURAL JOIN t2")
    q("SELECT a.c1, b.c2 FROM t1 a CROSS JOIN t2 b WHERE a.c2 = 2 AND b.c2 = 1")
    q("SELECT a.c1, b.c1 FROM t1 a LEFT JOIN t2 b ON a.c2 < b.c2")
    q("SELECT a.c1, b.c2 FROM t1 a FULL JOIN t2 b ON a.c1 IS NOT DISTINCT FROM b.c1 AND a.c2 IS NOT DISTINCT FROM b.c2")
    q("SELECT a.c1, b.c2 FROM t1 a JOIN t2 b ON a.c1 + 1 = b.c1 * 2")
    q("SELECT c1 FROM t1 WHERE c1 NOT IN (SELECT c1 FROM t2)")
    q("SELECT c1 FROM t1 WHERE c1 NOT IN (SELECT c2 FROM t2 WHERE c2 IS NOT NULL)")
    q("SELECT c1, c1 IN (SELECT c1 FROM t2) AS m FROM t1")
    q("SELECT c1 FROM t1 a WHERE EXISTS (SELECT 1 FROM t2 b WHERE b.c1 = a.c1 AND b.c2 > a.c2)")
    q("SELECT c1 FROM t1 a WHERE NOT EXISTS (SELECT 1 FROM t2 b WHERE b.c1 = a.c1)")
    q("SELECT c1, (SELECT count(*) FROM t2 b WHERE b.c1 = a.c1) AS n FROM t1 a")
    q("SELECT c1 FROM t1 WHERE c2 > (SELECT avg(c2) FROM t2)")
    q("SELECT c1 FROM t1 WHERE c1 = ANY (SELECT c1 FROM t2)")
    # ---- aggregates: modes, distinct, filter, order by, null treatment, grouping sets, limit
    q("SELECT c1, count(*) AS n, count(c2) AS c, sum(c2) AS s, min(c3) AS mi, max(c3) AS ma, avg(c2) AS a FROM t1 GROUP BY c1")
    q("SELECT c1, count(DISTINCT c2) AS d, sum(DISTINCT c2) AS sd FROM t1 GROUP BY c1")
    q("SELECT c1, sum(c2) FILTER (WHERE c3 = 'a') AS s, count(*) FILTER (WHERE c2 IS NULL) AS n FROM t1 GROUP BY c1")
    q("SELECT c1, array_agg(c2 ORDER BY c2 DESC NULLS LAST) AS l, first_value(c3 ORDER BY c2 NULLS FIRST, c3 NULLS LAST) AS f FROM t1 GROUP BY c1")
    q("SELECT c1, first_value(c2) IGNORE NULLS AS f, last_value(c2 ORDER BY c3 NULLS FIRST) RESPECT NULLS AS l FROM t1 GROUP BY c1", X)
    q("SELECT c1, string_agg(c3, ',' ORDER BY c3 NULLS LAST) AS s FROM t1 GROUP BY c1")
    q("SELECT c1, c3, sum(c2) AS s FROM t1 GROUP BY ROLLUP(c1, c3)")
    q("SELECT c1, c3, sum(c2) AS s, grouping(c1) AS g FROM t1 GROUP BY CUBE(c1, c3)")
    q("SELECT c1, c3, count(*) AS n FROM t1 GROUP BY GROUPING SETS ((c1), (c3), ())")
    q("SELECT count(*) AS n, sum(c1) AS s FROM t1")
    q("SELECT DISTINCT c1 FROM t1 LIMIT 2", C)
    q("SELECT c1, c2 FROM t1 GROUP BY c1, c2 HAVING count(*) >= 1 AND c1 > 0")
    q("SELECT DISTINCT ON (c1) c1, c2, c3 FROM t1 ORDER BY c1 NULLS LAST, c2 DESC NULLS LAST, c3 NULLS LAST")
    q("SELECT approx_distinct(c2) AS d, median(c2) AS m, round(stddev(c2), 6) AS sd, round(corr(c1, c2), 6) AS co, bit_xor(c2) AS bx, bool_and(c2 > -5) AS ba FROM t1")
    # ---- sort / limit / top-k
    q("SELECT c1, c2, c3 FROM t1 ORDER BY c1 DESC NULLS LAST, c2 ASC NULLS FIRST, c3 DESC NULLS FIRST", O)
    q("SELECT c1, c2, c3 FROM t1 ORDER BY c1 ASC NULLS FIRST, c2 DESC NULLS LAST, c3 ASC NULLS LAST", O)
    q("SELECT c1, c2, c3 FROM t1 ORDER BY c1 DESC NULLS FIRST, c2 DESC NULLS FIRST, c3 DESC NULLS LAST LIMIT 3", O)
    q("SELECT c1, c2, c3 FROM t1 ORDER BY c2 NULLS LAST, c1 NULLS LAST, c3 NULLS LAST LIMIT 2 OFFSET 2", O)
    q("SELECT c1, c2, c3 FROM t1 ORDER BY c1 NULLS FIRST, c2 NULLS FIRST, c3 NULLS FIRST OFFSET 3", O)
    q("SELECT c1 FROM t1 LIMIT 0", C)
    q("SELECT c1 FROM t1 OFFSET 2", C)
    q("SELECT * FROM (SELECT c1, c2, c3 FROM t1 ORDER BY c1 NULLS FIRST, c2 NULLS FIRST, c3 NULLS FIRST LIMIT 4) AS s ORDER BY c1 DESC NULLS LAST, c2 DESC NULLS LAST, c3 DESC NULLS LAST LIMIT 2", O)
    # ---- windows: frame units x bounds, partition/order, null treatment, ranking, aggregates
    W = "ORDER BY c1 NULLS FIRST, c2 NULLS FIRST, c3 NULLS FIRST"
    for fr in ("ROWS BETWEEN UNBOUNDED PRECEDING AND CURRENT ROW", "ROWS BETWEEN 2 PRECEDING AND 1 FOLLOWING", "ROWS BETWEEN CURRENT ROW AND UNBOUNDED FOLLOWING",
               "ROWS BETWEEN 1 FOLLOWING AND 2 FOLLOWING", "ROWS BETWEEN 2 PRECEDING AND 1 PRECEDING", "ROWS BETWEEN UNBOUNDED PRECEDING AND UNBOUNDED FOLLOWING"):
        q(f"SELECT c1, c2, c3, sum(c2) OVER ({W} {fr}) AS s, count(c2) OVER ({W} {fr}) AS n, min(c3) OVER ({W} {fr}) AS m FROM t1")
    for fr in ("RANGE BETWEEN 1 PRECEDING AND 1 FOLLOWING", "RANGE BETWEEN UNBOUNDED PRECEDING AND CURRENT ROW", "RANGE BETWEEN CURRENT ROW AND 2 FOLLOWING",
               "GROUPS BETWEEN 1 PRECEDING AND CURRENT ROW", "GROUPS BETWEEN CURRENT ROW AND 1 FOLLOWING", "GROUPS BETWEEN UNBOUNDED PRECEDING AND UNBOUNDED FOLLOWING"):
        q(f"SELECT c1, c2, sum(c2) OVER (ORDER BY c1 NULLS LAST {fr}) AS s, max(c2) OVER (PARTITION BY c3 ORDER BY c1 DESC NULLS FIRST {fr}) AS m FROM t1")
    q(f"SELECT c1, c2, c3, rank() OVER (PARTITION BY c3 ORDER BY c1 NULLS LAST) AS r, dense_rank() OVER (ORDER BY c2 DESC NULLS LAST) AS d, percent_rank() OVER (ORDER BY c1 NULLS FIRST) AS p, cume_dist() OVER (ORDER BY c1 NULLS FIRST) AS cd, ntile(3) OVER ({W}) AS nt FROM t1")
    q(f"SELECT c1, c2, c3, lag(c2, 2, -9) OVER ({W}) AS l, lead(c3, 1, 'zz') OVER (PARTITION BY c1 {W}) AS le, nth_value(c2, 2) OVER ({W} ROWS BETWEEN UNBOUNDED PRECEDING AND UNBOUNDED FOLLOWING) AS nv FROM t1")
    q(f"SELECT c1, c2, c3, first_value(c2) IGNORE NULLS OVER ({W}) AS f, last_value(c2) RESPECT NULLS OVER ({W} ROWS BETWEEN 1 PRECEDING AND 1 FOLLOWING) AS l, lag(c2) IGNORE NULLS OVER ({W}) AS g FROM t1")
    q(f"SELECT c1, c2, c3, count(DISTINCT c2) OVER (PARTITION BY c1) AS dc FROM t1")
    q(f"SELECT c1, c2, c3, sum(c2) FILTER (WHERE c2 > 0) OVER (PARTITION BY c3) AS fs FROM t1")
    q(f"SELECT c1, c2, c3, sum(c2) OVER w AS s, avg(c2) OVER w AS a FROM t1 WINDOW w AS (PARTITION BY c1 ORDER BY c2 NULLS FIRST, c3 NULLS FIRST)")
    # ---- set operations, distinct, union shapes
    for op in ("UNION", "UNION ALL", "INTERSECT", "INTERSECT ALL", "EXCEPT", "EXCEPT ALL"):
        q(f"SELECT c1, c2 FROM t1 {op} SELECT c1, c2 FROM t2")
    q("SELECT c1 FROM t1 UNION ALL SELECT c2 FROM t2 UNION ALL SELECT c1 FROM t3")
    q("SELECT k, count(*) AS n FROM (SELECT c1 AS k FROM t1 GROUP BY c1 UNION ALL SELECT c1 AS k FROM t2 GROUP BY c1) AS u GROUP BY k")
    q("SELECT c1, 'x' AS t FROM t1 UNION ALL SELECT c1, c2 FROM t3")
    # ---- expressions: operators (pairs, associativity), negations, case, cast, like, in, between, functions
    ar = ["+", "-", "*", "/", "%"]
    for i, o1 in enumerate(ar):
        cols = []
        for j, o2 in enumerate(ar):
            cols.append(f"(c1 {o1} 3) {o2} (c2 + 4) AS l{j}")
            cols.append(f"c1 {o1} (3 {o2} (c2 + 4)) AS r{j}")
            cols.append(f"(c1 {o1} 3) {o2} 5 AS m{j}")
        q(f"SELECT c1, c2, {', '.join(cols)} FROM t1")
    q("SELECT c1, c2, - c1 + c2 AS a, -(c1 + c2) AS b, - (- c1) AS c, -c1 * -c2 AS d, (- c1) % 2 AS e, c1 - - c2 AS f, abs(-c1) AS g FROM t1")
    q("SELECT c1 & 3 AS a, c1 | c2 AS b, c1 << 2 AS d, c2 >> 1 AS e, (c1 | 1) & 2 AS f, c1 | (1 & 2) AS g, (c1 << 1) + 1 AS h, c1 << (1 + 1) AS i FROM t1")
    q("SELECT c1, c2, (c1 < c2) = (c2 < 1) AS a, c1 < c2 AND c2 < 2 OR c1 IS NULL AS b, c1 < c2 AND (c2 < 2 OR c1 IS NULL) AS c, NOT (c1 < c2 AND c2 < 2) AS d, (NOT c1 < c2) AND c2 < 2 AS e, NOT (c1 < c2) IS NULL AS f, (NOT (c1 < c2)) IS NULL AS g, (c1 = c2) IS NOT TRUE AS h, NOT ((c1 = c2) IS TRUE) AS i, (c1 = 1) = (c2 = 2) AS j FROM t1")
    q("SELECT c3, c1, (c3 || 'x') || 'y' AS a, c3 || ('x' || c3) AS b, CAST(c1 + 1 AS VARCHAR) || c3 AS c, c3 || CAST(c1 * 2 AS VARCHAR) AS d, (c3 || 'a') = 'aa' AS e, c3 || 'it''s' AS f, 'a\"b' || c3 AS g FROM t1")
    q("SELECT c1, c1 BETWEEN 1 AND 2 AS a, c1 NOT BETWEEN 1 AND 2 AS b, c1 BETWEEN c2 AND c2 + 1 AS c, NOT (c1 BETWEEN 1 AND 2) AS d, (c1 BETWEEN 0 AND 1) AND c2 > 0 AS e, c1 + 1 BETWEEN 1 + 1 AND 2 * 2 AS f FROM t1")
    q("SELECT c3, c3 LIKE 'a%' AS a, c3 NOT LIKE 'a%' AS b, c3 ILIKE 'A_' AS c, c3 NOT ILIKE '%B' AS d, c3 SIMILAR TO '(a|b)+' AS f, c3 NOT SIMILAR TO 'a.*' AS g, NOT (c3 LIKE 'a%') AS h, c3 ~ '^a' AS i, c3 ~* '^A' AS j, c3 !~ 'b$' AS k, c3 !~* 'B$' AS l FROM t1")
    q("SELECT c3, c3 LIKE 'a!%' ESCAPE '!' AS e, c3 NOT LIKE 'b#_' ESCAPE '#' AS f FROM t1")
    q("SELECT c1, c1 IN (1, 2) AS a, c1 NOT IN (1, 2) AS b, c1 IN (c2, c2 + 1, 3) AS c, c1 NOT IN (c2, NULL) AS d, NOT (c1 IN (1)) AS e, c3 IN ('a', 'b') AS f, c1 IN (1) AS g FROM t1")
    q("SELECT c1, c1 IN (1, 2, 3, 5, 8) AS a, c1 NOT IN (c2, c2 + 1, 7, 9, 11) AS b FROM t1 WHERE c2 IN (0, 1, 2, 3, 4) OR c1 IS NULL")
    q("SELECT c1, CASE WHEN c1 > 1 THEN 'hi' WHEN c1 = 1 THEN 'one' ELSE 'lo' END AS a, CASE WHEN c1 > 1 THEN c2 END AS b, CASE c1 WHEN 1 THEN 'x' WHEN 2 THEN 'y' END AS c, CASE c1 WHEN 1 THEN c2 ELSE -c2 END AS d, CASE WHEN c1 IS NULL THEN CASE WHEN c2 < 0 THEN 'nn' ELSE 'np' END ELSE 'v' END AS e FROM t1")
    q("SELECT c1, CAST(c1 AS INT) AS a, CAST(c1 AS DOUBLE) AS b, CAST(c1 AS VARCHAR) AS c, TRY_CAST(c3 AS BIGINT) AS d, CAST(c2 AS DECIMAL(10,2)) AS e, CAST(c1 AS BOOLEAN) AS f, arrow_cast(c1, 'Int8') AS g FROM t1")
    q("SELECT c1, CAST(c1 * 86400 AS TIMESTAMP) AS h, CAST(CAST(c1 AS TIMESTAMP) AS DATE) AS i FROM t1")
    q("SELECT c1, arrow_cast(c1 * 1000, 'Timestamp(Millisecond, Some(\"+02:00\"))') AS j FROM t1")
    q("SELECT c1, arrow_cast(c1, 'Timestamp(Second, None)') AS k, arrow_cast(c1, 'Duration(Millisecond)') AS l, arrow_cast(c3, 'LargeUtf8') AS m, arrow_cast(c2, 'Decimal128(20, 3)') AS n FROM t1")
    q("SELECT c1, c1 IS NULL AS a, c1 IS NOT NULL AS b, (c1 > 1) IS TRUE AS c, (c1 > 1) IS NOT TRUE AS d, (c1 > 1) IS FALSE AS e, (c1 > 1) IS NOT FALSE AS f, (c1 > 1) IS UNKNOWN AS g, (c1 > 1) IS NOT UNKNOWN AS h, c1 IS DISTINCT FROM c2 AS i, c1 IS NOT DISTINCT FROM c2 AS j, NOT c1 IS NULL AS k FROM t1")
    q("SELECT c1, coalesce(c2, c1, 0) AS a, nullif(c1, c2) AS b, greatest(c1, c2) AS c, least(c1, c2, 0) AS d, abs(c2) AS e, power(c1, 2) AS f, round(c1 / 3.0, 2) AS g, upper(c3) AS h, substr(c3, 1, 1) AS i, concat(c3, '-', c3) AS j, length(c3) AS k, date_trunc('day', CAST(c1 * 100000 AS TIMESTAMP)) AS l, date_part('year', CAST(c1 AS TIMESTAMP)) AS m, make_array(c1, c2) AS n, array_length(make_array(c1, c2)) AS o, struct(c1, c3) AS p FROM t1")
    q("SELECT c1, named_struct('x', c1)['x'] AS r, make_array(c1, c2)[1] AS s FROM t1")
    q("SELECT c1 AS \"Weird Col\", c2 AS \"a\"\"b\", c3 AS \"select\", 'lit' AS \"MiXed\" FROM t1")
    q("SELECT \"Weird Col\" + 1 AS x FROM (SELECT c1 AS \"Weird Col\" FROM t1) AS \"Sub Q\" WHERE \"Sub Q\".\"Weird Col\" > 0")
    q("SELECT 1.5 AS a, 1e3 AS b, -0.25 AS c, 9223372036854775807 AS d, TRUE AS e, NULL AS f, 'x' AS g, DATE '2020-02-29' AS h, TIMESTAMP '2020-01-01 10:00:00' AS i, INTERVAL '1 day 2 hours' AS j, X'0aff' AS k, CAST(CAST(1.25 AS DECIMAL(5,2)) + 1 AS VARCHAR) AS l")
    # ---- derived tables / CTEs / views whose projection only renames (permuted, repeated, subset) an inner projection
    q("SELECT c.x, c.y FROM (SELECT b.c2 AS x, b.c1 AS y FROM (SELECT c1, c2 FROM t2) AS b) AS c")
    q("SELECT c.x, c.y FROM (SELECT b.c1 AS x, b.c1 AS y FROM (SELECT c1, c2 FROM t2) AS b) AS c")
    q("SELECT c.x, c.y FROM (SELECT b.c2 AS x, b.c2 AS y FROM (SELECT c1, c2 FROM t2) AS b) AS c")
    q("SELECT c.x FROM (SELECT b.c2 AS x FROM (SELECT c1, c2 FROM t2) AS b) AS c")
    q("SELECT c.p, c.q, c.r FROM (SELECT b.c3 AS p, b.c1 AS q, b.c2 AS r FROM (SELECT c1, c2, c3 FROM t1) AS b) AS c")
    q("SELECT c.p, c.q, c.r, c.s FROM (SELECT b.c2 AS p, b.c1 AS q, b.c2 AS r, b.c3 AS s FROM (SELECT c1, c2, c3 FROM t1) AS b) AS c")
    q("SELECT c.y, c.x FROM (SELECT b.c2 AS x, b.c1 AS y FROM (SELECT c1, c2 FROM t2) AS b) AS c WHERE c.x > 0")
    q("WITH b AS (SELECT c1, c2 FROM t2), c AS (SELECT c2 AS x, c1 AS y FROM b) SELECT c.x, c.y FROM c")
    q("WITH c(x, y) AS (SELECT c2, c1 FROM t2) SELECT x, y FROM c")
    q("WITH b AS (SELECT c1, c2, c3 FROM t1), c AS (SELECT c3 AS p, c1 AS q, c1 AS r FROM b) SELECT p, q, r FROM c")
    q("SELECT c.x, c.y FROM (SELECT c1, c2 FROM t2) AS c(y, x)")
    q("SELECT v3.x, v3.y FROM v3")
    q("SELECT c.a, c.b FROM (SELECT v3.y AS a, v3.x AS b FROM v3) AS c")
    q("SELECT c.x, d.y FROM (SELECT b.c2 AS x, b.c1 AS y FROM (SELECT c1, c2 FROM t2) AS b) AS c JOIN (SELECT e.c1 AS y, e.c2 AS x FROM (SELECT c1, c2 FROM t2) AS e) AS d ON c.y = d.y")
    # ---- other nodes: values, unnest, recursive, explain/analyze, prepare, DDL, DML, copy
    q("SELECT * FROM (VALUES (1, 'a', TRUE), (2, NULL, FALSE), (NULL, 'c', NULL)) AS v(x, y, z)")
    q("SELECT unnest(make_array(c1, c2)) AS u, c1 FROM t2")
    q("SELECT unnest(make_array(make_array(c1), make_array(c2, c1))) AS u FROM t2")
    q("SELECT unnest(struct(c1, c2)) FROM t2")
    q("WITH RECURSIVE r(n) AS (SELECT 1 UNION ALL SELECT n + 1 FROM r WHERE n < 4) SELECT n FROM r")
    q("WITH RECURSIVE r(n) AS (SELECT 1 UNION SELECT (n % 3) + 1 FROM r) SELECT n FROM r")
    q("WITH a AS (SELECT c1, c2 FROM t1 WHERE c1 > 0), b AS (SELECT c1, count(*) AS n FROM a GROUP BY c1) SELECT a.c1, b.n FROM a JOIN b ON a.c1 = b.c1")
    q("EXPLAIN SELECT c1 FROM t1 WHERE c2 > 0", X)
    q("EXPLAIN VERBOSE SELECT c1 FROM t1", X)
    q("EXPLAIN ANALYZE SELECT c1 FROM t1 WHERE c2 > 0", X)
    q("EXPLAIN ANALYZE VERBOSE SELECT count(*) FROM t1", X)
    q("PREPARE p1(BIGINT, VARCHAR) AS SELECT c1 FROM t1 WHERE c1 = $1 AND c3 = $2", X)
    q("SELECT c1 FROM t1 WHERE c1 = $1", X)
    q("CREATE VIEW v2 AS SELECT c1, c3 FROM t1 WHERE c2 > 0", C)
    q("CREATE OR REPLACE VIEW v1 AS SELECT c1, c2 AS d FROM t1", C)
    q("DROP VIEW v1", C)
    q("DROP TABLE IF EXISTS nope", C)
    q("CREATE TABLE m1 AS SELECT c1, c2 FROM t1 WHERE c1 > 1", C)
    q("CREATE TABLE m2 (a BIGINT NOT NULL, b VARCHAR DEFAULT 'z')", C)
    q(f"CREATE EXTERNAL TABLE x1 (a BIGINT, b VARCHAR) STORED AS CSV WITH ORDER (a DESC NULLS FIRST) PARTITIONED BY (b) LOCATION '{d}/out/x1/' OPTIONS ('format.delimiter' ';', 'format.has_header' 'false')", C)
    q("CREATE SCHEMA s1", C)
    q("CREATE DATABASE db1", C)
    q("DESCRIBE t1", X)
    q("SET datafusion.execution.batch_size = 7", X)
    q("INSERT INTO s_csv SELECT c1, c2, 'b' FROM t2 WHERE c1 = 3", X)
    q("INSERT INTO s_json VALUES (7, 8)", X)
    q("INSERT INTO s_pq SELECT c1, c2, c3 FROM t1 WHERE c1 = 3", X)
    q("INSERT OVERWRITE s_csv SELECT c1, c2, c3 FROM t1", X)
    q("DELETE FROM t1 WHERE c1 = 1", X)
    q("UPDATE t1 SET c2 = c2 + 1 WHERE c1 = 2", X)
    q(f"COPY (SELECT c1, c3 FROM t1 WHERE c1 > 0) TO '{d}/out/c1.csv' STORED AS CSV OPTIONS ('format.delimiter' '|', 'format.has_header' 'false')", C)
    q(f"COPY t2 TO '{d}/out/j1.json' STORED AS JSON", C)
    q(f"COPY (SELECT c1, c2 FROM t2) TO '{d}/out/pp/' STORED AS PARQUET PARTITIONED BY (c1)", C)
    return a


API = ["repartition_rr", "repartition_hash", "repartition_distribute", "sort_fetch", "unnest_preserve_nulls", "unnest_drop_nulls", "join_null_equal",
       "join_null_unequal", "join_right_semi", "join_right_anti", "join_left_mark", "alias_metadata", "distinct_on_api", "dict_struct_literals"]


def cases(workdir, base_corpus):
    d = os.path.join(workdir, "corpus")
    write_files(d)
    st = setup(d)
    out = []
    for i, (sql, flags) in enumerate(statements(d)):
        c = {"id": f"x{i}", "sql": sql, "tables": TABLES, "corpus": True, "flags": sorted(flags), "setup": [] if i == 0 else st}
        out.append(c)
    for i, sql in enumerate(base_corpus):
        out.append({"id": f"b{i}", "sql": sql, "tables": TABLES, "corpus": True, "flags": [], "setup": st})
    for name in API:
        out.append({"id": "api-" + name, "sql": "-- api: " + name, "api": name, "tables": TABLES, "corpus": True, "flags": ["ordered"] if name == "sort_fetch" else (["count"] if name == "dict_struct_literals" else []), "setup": []})
    return out


# ----------------------------------------------------------------------------------------- measured coverage
L_OPTS = [
    ("Join.type=%s", r"^\s*(Inner|Left|Right|Full|LeftSemi|LeftAnti|RightSemi|RightAnti|LeftMark) Join"), ("Join.filter", r" Join: .*Filter: \S"), ("Join.using", r" Join: Using "),
    ("Join.null_aware", r"null_aware"), ("Join.keys", r" Join: \S+ = "), ("Cross Join", r"^\s*Cross Join"),
    ("Sort.fetch", r"^\s*Sort: .*fetch=\d"), ("Sort.desc", r"^\s*Sort: .* DESC"), ("Sort.asc", r"^\s*Sort: .* ASC"), ("Sort.nulls_first", r"^\s*Sort: .*NULLS FIRST"), ("Sort.nulls_last", r"^\s*Sort: .*NULLS LAST"),
    ("Limit.skip", r"^\s*Limit: skip=[1-9]"), ("Limit.fetch", r"^\s*Limit: skip=\d+, fetch=\d"), ("Limit.nofetch", r"^\s*Limit: skip=\d+, fetch=None"),
    ("Aggregate.distinct", r"^\s*Aggregate: .*DISTINCT"), ("Aggregate.filter", r"^\s*Aggregate: .*FILTER \(WHERE"), ("Aggregate.order_by", r"^\s*Aggregate: .*ORDER BY \["),
    ("Aggregate.null_treatment", r"^\s*Aggregate: .*(IGNORE|RESPECT) NULLS"), ("Aggregate.rollup", r"ROLLUP \("), ("Aggregate.cube", r"CUBE \("), ("Aggregate.grouping_sets", r"GROUPING SETS \("),
    ("Window.rows", r"WindowAggr: .* ROWS BETWEEN"), ("Window.range", r"WindowAggr: .* RANGE BETWEEN"), ("Window.groups", r"WindowAggr: .* GROUPS BETWEEN"),
    ("Window.unbounded_preceding", r"BETWEEN UNBOUNDED PRECEDING"), ("Window.n_preceding", r"BETWEEN \d+ PRECEDING"), ("Window.current_row_start", r"BETWEEN CURRENT ROW AND"),
    ("Window.n_following_start", r"BETWEEN \d+ FOLLOWING"), ("Window.unbounded_following", r"AND UNBOUNDED FOLLOWING"), ("Window.n_preceding_end", r"AND \d+ PRECEDING"),
    ("Window.partition_by", r"WindowAggr: .*PARTITION BY \["), ("Window.null_treatment", r"WindowAggr: .*(IGNORE|RESPECT) NULLS"), ("Window.filter", r"WindowAggr: .*FILTER"), ("Window.distinct", r"WindowAggr: .*DISTINCT"),
    ("TableScan.projection", r"TableScan: .*projection=\["), ("TableScan.filters", r"TableScan: .*(partial|full|unsupported)_filters=\["), ("TableScan.fetch", r"TableScan: .*fetch=\d"),
    ("RecursiveQuery.is_distinct=true", r"RecursiveQuery: is_distinct=true"), ("RecursiveQuery.is_distinct=false", r"RecursiveQuery: is_distinct=false"),
    ("Repartition.round_robin", r"Repartition: RoundRobinBatch"), ("Repartition.hash", r"Repartition: Hash"), ("Repartition.distribute_by", r"Repartition: DistributeBy"),
    ("Explain.verbose", r"^\s*Explain"), ("Analyze", r"^\s*Analyze"), ("CopyTo", r"^\s*CopyTo"), ("Dml.insert", r"Dml: op=\[Insert Into\]"), ("Dml.overwrite", r"Dml: op=\[Insert Overwrite\]"),
    ("Dml.delete", r"Dml: op=\[Delete\]"), ("Dml.update", r"Dml: op=\[Update\]"), ("CreateView", r"^\s*CreateView"), ("CreateExternalTable", r"^\s*CreateExternalTable"), ("CreateMemoryTable", r"^\s*CreateMemoryTable"),
    ("DropView", r"^\s*DropView"), ("DropTable", r"^\s*DropTable"), ("CreateCatalogSchema", r"^\s*CreateCatalogSchema"), ("CreateCatalog", r"^\s*CreateCatalog:"), ("Prepare", r"^\s*Prepare"),
    ("Values", r"^\s*Values"), ("Unnest", r"^\s*Unnest"), ("DistinctOn", r"^\s*DistinctOn"), ("Distinct", r"^\s*Distinct:"), ("Union", r"^\s*Union"), ("EmptyRelation", r"^\s*EmptyRelation"),
    ("DescribeTable", r"^\s*DescribeTable"), ("Statement.set", r"^\s*SetVariable"), ("Subquery", r"^\s*Subquery:"), ("SubqueryAlias", r"^\s*SubqueryAlias"),
    ("Expr.like", r" LIKE "), ("Expr.not_like", r" NOT LIKE "), ("Expr.ilike", r" ILIKE "), ("Expr.like_escape", r"ESCAPE '"), ("Expr.similar_to", r"SIMILAR TO"), ("Expr.between", r" BETWEEN \S+ AND (?!CURRENT|UNBOUNDED|\d+ (PRECEDING|FOLLOWING))"),
    ("Expr.not_between", r"NOT BETWEEN"), ("Expr.in_list", r" IN \(\["), ("Expr.not_in_list", r"NOT IN \(\["), ("Expr.case_when", r"CASE WHEN"), ("Expr.case_base", r"CASE [^W]\S* WHEN"),
    ("Expr.cast", r"CAST\("), ("Expr.try_cast", r"TRY_CAST\("), ("Expr.is_distinct_from", r"IS DISTINCT FROM"), ("Expr.is_not_distinct_from", r"IS NOT DISTINCT FROM"), ("Expr.negative", r"\(- "),
    ("Expr.is_true_family", r"IS (NOT )?(TRUE|FALSE|UNKNOWN)"), ("Expr.regex", r" ~\*? | !~"), ("Expr.bitwise", r" [&|#] | << | >> "), ("Expr.placeholder", r"\$1"), ("Expr.scalar_subquery", r"\(<subquery>\)"),
    ("Expr.exists", r"EXISTS \(<subquery>\)"), ("Expr.in_subquery", r"IN \(<subquery>\)"), ("Expr.grouping", r"grouping\("),
]
P_OPTS = [
    ("AggregateExec.mode=%s", r"AggregateExec: mode=(\w+)"), ("AggregateExec.ordering_mode", r"AggregateExec: .*ordering_mode=(\w+)"), ("AggregateExec.lim", r"AggregateExec: .*lim=\["),
    ("HashJoinExec.mode=%s", r"HashJoinExec: mode=(\w+)"), ("HashJoinExec.join_type=%s", r"HashJoinExec: .*join_type=(\w+)"), ("HashJoinExec.filter", r"HashJoinExec: .*filter="), ("HashJoinExec.projection", r"HashJoinExec: .*projection=\["),
    ("HashJoinExec.null_equality", r"HashJoinExec: .*NullsEqual: true"),
    ("SortMergeJoinExec.join_type=%s", r"SortMergeJoinExec: join_type=(\w+)"), ("SortMergeJoinExec.filter", r"SortMergeJoinExec: .*filter="), ("NestedLoopJoinExec.join_type=%s", r"NestedLoopJoinExec: join_type=(\w+)"),
    ("NestedLoopJoinExec.filter", r"NestedLoopJoinExec: .*filter="), ("NestedLoopJoinExec.projection", r"NestedLoopJoinExec: .*projection=\["), ("CrossJoinExec", r"CrossJoinExec"),
    ("SortExec.topk", r"SortExec: TopK\(fetch="), ("SortExec.preserve_partitioning=true", r"SortExec: .*preserve_partitioning=\[true\]"), ("SortExec.desc", r"SortExec: .* DESC"), ("SortExec.nulls_last", r"SortExec: .*NULLS LAST"),
    ("SortPreservingMergeExec", r"SortPreservingMergeExec"), ("SortPreservingMergeExec.fetch", r"SortPreservingMergeExec: .*fetch="),
    ("RepartitionExec.hash", r"RepartitionExec: partitioning=Hash"), ("RepartitionExec.round_robin", r"RepartitionExec: partitioning=RoundRobinBatch"), ("RepartitionExec.preserve_order", r"RepartitionExec: .*preserve_order=true"),
    ("GlobalLimitExec.skip", r"GlobalLimitExec: skip=[1-9]"), ("GlobalLimitExec.fetch", r"GlobalLimitExec: skip=\d+, fetch=\d"), ("GlobalLimitExec.nofetch", r"GlobalLimitExec: skip=\d+, fetch=None"), ("LocalLimitExec", r"LocalLimitExec"),
    ("CoalescePartitionsExec", r"CoalescePartitionsExec"), ("CoalescePartitionsExec.fetch", r"CoalescePartitionsExec: fetch="), ("CoalesceBatchesExec", r"CoalesceBatchesExec"),
    ("FilterExec", r"FilterExec"), ("FilterExec.projection", r"FilterExec: .*projection=\["), ("ProjectionExec", r"ProjectionExec"), ("UnionExec", r"UnionExec"), ("InterleaveExec", r"InterleaveExec"),
    ("BoundedWindowAggExec.mode=%s", r"BoundedWindowAggExec: .*mode=\[(\w+)\]"), ("WindowAggExec", r"^\s*WindowAggExec"), ("Window.frame=%s", r"frame: (ROWS|RANGE|GROUPS) BETWEEN"),
    ("UnnestExec", r"UnnestExec"), ("RecursiveQueryExec", r"RecursiveQueryExec"), ("WorkTableExec", r"WorkTableExec"), ("PlaceholderRowExec", r"PlaceholderRowExec"), ("EmptyExec", r"EmptyExec"),
    ("ExplainExec", r"ExplainExec"), ("AnalyzeExec", r"AnalyzeExec"), ("DataSinkExec.csv", r"DataSinkExec: sink=CsvSink"), ("DataSinkExec.json", r"DataSinkExec: sink=JsonSink"), ("DataSinkExec.parquet", r"DataSinkExec: sink=ParquetSink"),
    ("DataSinkExec.memory", r"DataSinkExec: sink=MemoryTable"),
    ("DataSourceExec.csv", r"DataSourceExec: .*file_type=csv"), ("DataSourceExec.json", r"DataSourceExec: .*file_type=json"), ("DataSourceExec.parquet", r"DataSourceExec: .*file_type=parquet"),
    ("DataSourceExec.memory", r"DataSourceExec: partitions=\d+, partition_sizes"), ("DataSourceExec.projection", r"DataSourceExec: .*projection=\["), ("DataSourceExec.limit", r"DataSourceExec: .*limit=\d"),
    ("DataSourceExec.output_ordering", r"DataSourceExec: .*output_ordering="), ("DataSourceExec.predicate", r"DataSourceExec: .*predicate="), ("DataSourceExec.partition_column", r"DataSourceExec: .*projection=\[[^\]]*\bp\b"),
    ("PExpr.like", r"Exec: .* LIKE "), ("PExpr.in_list", r"Exec: .* IN \(\["), ("PExpr.case", r"Exec: .*CASE "), ("PExpr.cast", r"Exec: .*CAST\("), ("PExpr.try_cast", r"Exec: .*TRY_CAST\("),
    ("PExpr.negative", r"Exec: .*\(- "), ("PExpr.not", r"Exec: .*NOT "), ("PExpr.is_null", r"Exec: .*IS (NOT )?NULL"), ("PExpr.scalar_function", r"Exec: .*\b(abs|upper|concat|coalesce|substr)\("), ("PExpr.is_distinct", r"Exec: .*IS (NOT )?DISTINCT FROM"),
]


def tags(text, table):
    out = set()
    for name, rx in table:
        for m in re.finditer(rx, text, re.M):
            out.add(name % m.group(1) if "%s" in name else name)
    return out


def node_tags(text, prefix):
    return {prefix + m.group(1) for m in re.finditer(r"^\s*([A-Za-z]+)(?:Exec)?\b", text, re.M)}
