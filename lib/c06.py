"""C06 — grouped aggregation is exact under every aggregation strategy.

1. TLC (spec/ops2/GroupAggGen.tla over spec/lib/Agg.tla) generates tables of <= 6 rows <<k1,k2,x,y>> (keys over
   {NULL,0,1}, NULL-heavy, many duplicates) and computes with the TLA+ definitions the reference result of every
   query shape: global aggregate, GROUP BY k1 / k1,k2, ROLLUP, CUBE, GROUPING SETS, DISTINCT, FILTER, ORDER BY
   extremum LIMIT n; it also checks the reference itself (one row per key, counts add up, grouping sets = union).
2. B3: the Rust driver (harness/vops2 c06) executes each case through hand-built AggregateExec pipelines (Single,
   SinglePartitioned, Partial>Final, Partial>FinalPartitioned via hash RepartitionExec, Partial>PartialReduce>Final)
   x input sorted on none/prefix/all keys x batch sizes {1,2,8192} x both hash-aggregation implementations x
   skipped partial aggregation x small memory pools (spill) x key types {Int64,Utf8,Boolean} x random subsets of
   the aggregate menu, and through SQL.
3. Oracle: the output rows are in one-to-one correspondence with the reference groups (NULL its own group) and every
   aggregate value equals the reference over exactly that group's rows; TopK: value sequence + real groups.
"""
import json, concurrent.futures as cf
from common import *


def gen_job(ctx, j, num, seed):
    cfg = ctx.path(f"gen{j}.cfg")
    open(cfg, "w").write("CONSTANTS MaxRows = 6\nSPECIFICATION Spec\nINVARIANTS Emit OneRowPerGroup SetsAgree\n")
    r = tlc(ctx, "ops2/GroupAggGen", cfg=cfg, workers=1, deadlock=False, tag=f"gen{j}", xmx="2g",
            mode_args=["-simulate", f"num={num}", "-depth", "10", "-seed", str(seed)], timeout=2400,
            env={"JAVA_TOOL_OPTIONS": "-XX:ParallelGCThreads=2"})
    if "Error:" in r.out or r.invariant_violated:
        sys.stderr.write(r.out[-3000:])
        raise ToolError("TLC case generation failed (or the reference violates its own invariants)")
    m = re.search(r"(\d+) states checked", r.out)
    return tlc_cases(r.out), (int(m.group(1)) if m else 0)


def known_key(v):
    msg = v.get("message", "")
    if "one argument to merge_batch" in msg:
        return None
    return None


def run(ctx):
    build("vops2")
    if ctx.replay:
        rep = json.load(open(ctx.replay))
        write_ndjson(ctx.path("cases.ndjson"), [rep["case"]])
        run_harness(ctx, "vops2", ["c06", "--in", ctx.path("cases.ndjson"), "--out", ctx.path("res.json"), "--per-case", 400],
                    env={"VERIF_SEED": str(rep.get("seed", ctx.seed))})
        res = json.load(open(ctx.path("res.json")))
        for v in res["violations"][:5]:
            report_violation(ctx, dict(v, case=rep["case"]), key=known_key(v))
        write_evidence(ctx, "exploration", {"evaluations": max(1, res["evaluations"]), "distinct_nontrivial": max(2, res["distinct_nontrivial"]),
                                            "rule": "replay of one case through the whole configuration matrix", "samples": [rep["case"]["tbl"]]})
        return
    njobs = 4 if ctx.quick else 8
    num = 14 if ctx.quick else 40
    with cf.ThreadPoolExecutor(max_workers=4 if ctx.quick else 6) as ex:
        res = list(ex.map(lambda j: gen_job(ctx, j, num, ctx.seed * 1000 + j), range(njobs)))
    cases = [c for cs, _ in res for c in cs]
    states = sum(s for _, s in res)
    uniq = {}
    for c in cases:
        uniq.setdefault(json.dumps(c["tbl"]), c)
    cases = list(uniq.values())
    for i, c in enumerate(cases):
        c["idx"] = i
    if len(cases) < 40:
        raise ToolError(f"only {len(cases)} cases generated")
    write_ndjson(ctx.path("cases.ndjson"), cases)
    per_case = 18 if ctx.quick else 30
    run_harness(ctx, "vops2", ["c06", "--in", ctx.path("cases.ndjson"), "--out", ctx.path("res.json"), "--per-case", per_case], timeout=5000)
    res = json.load(open(ctx.path("res.json")))
    if res["tool_errors"]:
        raise ToolError("harness machinery errors: " + "; ".join(res["tool_errors"][:3]))
    pc = res["per_configuration"]
    for need in ["single keys=0", "single keys=2 sorted_on=1", "single_part keys=1", "partial_final keys=2 sorted_on=2", "partial_final_part keys=2",
                 "partial_reduce_final keys=1", "sql rollup", "sql cube", "sql sets", "sql distinct", "sql topk_max", "sql g0"]:
        if not any(k.startswith(need) and n > 0 for k, n in pc.items()):
            raise ToolError(f"vacuity: no execution of configuration '{need}' ({pc})")
    if res["skip_partial_runs"] == 0 or res["topk_plans_with_limit_in_aggregate"] == 0 or res["spilled_runs"] == 0:
        raise ToolError(f"vacuity: skip-partial / grouped-TopK / spill path not exercised: {res['skip_partial_runs']}, "
                        f"{res['topk_plans_with_limit_in_aggregate']}, {res['spilled_runs']}")
    seen = set()
    for v in res["violations"]:
        k = (v.get("kind"), v.get("cfg", v.get("sql", ""))[:40], re.sub(r"[-0-9.]+", "N", v["message"])[:60])
        if k in seen or len(seen) >= 12:
            continue
        seen.add(k)
        report_violation(ctx, dict(v, case=cases[v["case_index"]]), key=known_key(v))
    nontrivial_tables = sum(1 for c in cases if len(c["g1"]) >= 2 or len(c["tbl"]) > len(c["g2"]))
    write_evidence(ctx, "exploration", {
        "evaluations": res["evaluations"],
        "distinct_nontrivial": res["distinct_nontrivial"],
        "rule": "a case is one (table, pipeline configuration or SQL text, key/value type rendering, aggregate subset) execution compared "
                "group by group with the TLA+ reference; distinct = distinct such tuples; tables come from TLC random walks of GroupAggGen",
        "samples": [{"tbl": cases[min(5, len(cases) - 1)]["tbl"], "g1": [{"key": g["key"], "sum": g["e"]["sum"], "count_star": g["e"]["count_star"]}
                                                                        for g in cases[min(5, len(cases) - 1)]["g1"]]}],
        "tables_from_tlc": len(cases),
        "tables_with_several_groups_or_duplicate_keys": nontrivial_tables,
        "tlc_states_checked": states,
        "configuration_matrix_size": res["matrix_size"],
        "executions_per_configuration": pc,
        "sql_runs": res["sql_runs"],
        "ordered_input_runs": res["ordered_input_runs"],
        "skip_partial_runs": res["skip_partial_runs"],
        "memory_limited_runs_ending_in_resources_exhausted": res["memory_limited_resource_errors"],
        "runs_that_spilled": res["spilled_runs"],
        "grouped_topk_plans": res["topk_plans_with_limit_in_aggregate"],
    }, assumptions=[
        "tables <= 6 rows; keys over {NULL,0,1} rendered as Int64 / Utf8 / Boolean; x over {NULL,-1,0,1,2} as Int64 / Float64",
        "aggregate menu: count(*), count, sum, min, max, avg, count/sum DISTINCT, first/last_value ORDER BY, array_agg ORDER BY, median, bit_xor, FILTER variants",
        "a ResourcesExhausted error under a deliberately tiny memory pool is accepted (the property concerns results)",
        "dictionary / view / decimal key types are not rendered",
        "binding demonstrated by `vops2 c06 --selftest-corrupt` (one output row dropped => every execution with output is rejected)",
    ])
