"""C25 — written files read back to the data that was written.

spec/files/HivePath.tla   escaping of partition values (Encode/Decode over an awkward alphabet); laws
                          RoundTrip, Injective, LegalSegment, PathRecover checked exhaustively by TLC
                          (HivePathLaws.tla) for the escape sets min/store/wide, negative control `broken`.
spec/files/Demux.tla      rows -> files (partition key -> directory, single file, directory with soft row
                          limit and round-robin); invariants Conservation, Placement, DataUnchanged,
                          DistinctDirs, Shape checked exhaustively over a small scope.
spec/files/DemuxGen.tla   case generator: dataset x write configuration x expected read-back (through
                          Demux.Run / Restore and the format's equivalence CsvEquiv) x expected directories.
The Rust driver (harness/vfiles/src/c25.rs) writes every case through COPY / INSERT INTO a listing table /
DataFrame::write_* into a directory below work/C25, checks the reported row counts, where the files lie,
and reads them back in a fresh session (CREATE EXTERNAL TABLE or the ListingTable API): bag and column
types must be what the specification says.
"""
import json, os, collections
from common import *

NAMES = ["p1", "p2", "s", "i", "b"]
NULL_KEY = "copy-or-dataframe-write:null-partition-value-written-as-empty-string-zero-or-false"
EXT_KEY = "insert-into-api-listing-table:compressed-text-format:files-named-without-compression-suffix"
SUFFIX = {"gzip": ".gz", "bzip2": ".bz2", "xz": ".xz", "zstd": ".zst"}


def val(v, pool):
    k = v["k"]
    if k == "n":
        return None
    if k == "i":
        return v["v"]
    if k == "b":
        return v["v"] == 1
    if k == "s":
        return pool[v["v"] - 1]
    raise ToolError(f"value kind {k}")


def convert(c, uid, origin):
    pool = [bytes(p).decode("utf-8") for p in c["pool"]]
    types = c["coltypes"]
    names = NAMES[:len(types)]
    rows = lambda rs: [[val(v, pool) for v in r] for r in rs]
    det = bool(c["pc"]) or c["effsingle"] or (c["tp"] == 1 and c["mempart"] == 1)
    return {
        "idx": uid, "origin": origin,
        "cols": [{"name": n, "t": t} for n, t in zip(names, types)],
        "partby": [names[i - 1] for i in c["pc"]],
        "writes": [[rows(b) for b in w] for w in c["writes"]],
        "method": c["method"], "fmt": c["fmt"], "comp": c["comp"],
        "single": {"auto": None, "yes": True, "no": False}[c["single"]], "pathlike": c["pathlike"], "effsingle": c["effsingle"],
        "maxrows": c["maxrows"], "minpar": c["minpar"], "tp": c["tp"], "rtp": c["rtp"], "mempart": c["mempart"],
        "hdr": c["hdr"], "nlv": True, "reader": c["reader"], "sv": c["sv"], "pnull": c["pnull"],
        "expect": rows(c["expect"]),
        "dirs": [{"key": [bytes(k).decode("utf-8") for k in d["key"]], "dir": bytes(d["dir"]).decode("utf-8")} for d in c["dirs"]],
        "nfiles": c["nfiles"] if (det and c["nfiles"] >= 0) else None,
    }


def known_key(v):
    """The one engine defect this check runs into (findings/C25-null-partition-value.md): COPY / DataFrame
    writes put a NULL partition value into the directory of the empty string / 0 / false.  Narrow: the case
    holds a NULL partition value, was not written through INSERT, and the read-back differs from the
    expectation exactly by that substitution (same column types, nothing else missing or unexpected)."""
    c = v.get("case") or {}
    if (c.get("method") == "insert" and c.get("reader") == "api" and c.get("fmt") in ("csv", "json") and c.get("comp") in SUFFIX
            and v.get("stage") == "compare" and v.get("types") == v.get("want_types") and v.get("missing_rows") and not v.get("unexpected_rows")
            and v.get("files") and all(not f.split(" (")[0].endswith(SUFFIX[c["comp"]]) for f in v["files"])):
        # findings/C25-insert-compressed-extension.md
        return EXT_KEY
    if not c.get("pnull") or c.get("method") not in ("copy", "df") or v.get("stage") != "compare":
        return None
    if v.get("types") != v.get("want_types"):
        return None
    pcols = {i: col["t"] for i, col in enumerate(c["cols"]) if col["name"] in c["partby"]}
    subst = {"s": "", "j": 0, "b": False}
    miss = collections.Counter()
    for r in v.get("missing_rows", []):
        row = json.loads(r)
        if not any(row[i] is None for i in pcols):
            return None
        for i, t in pcols.items():
            if row[i] is None:
                row[i] = subst[t]
        # CSV: the substituted empty string lives in the directory name, not in the file: it stays ''
        miss[json.dumps(row, separators=(",", ":"))] += 1
    extra = collections.Counter(json.dumps(json.loads(r), separators=(",", ":")) for r in v.get("unexpected_rows", []))
    return NULL_KEY if miss and miss == extra else None


def spec_checks(ctx):
    """Specification-level model checking (a failure here is ours: exit 2)."""
    st = {"states": 0, "transitions": 0}
    maxlen = 3 if ctx.quick else 4
    sets = ["store"] if ctx.quick else ["store", "min", "wide"]
    for s in sets:
        cfg = ctx.path(f"hp_{s}.cfg")
        open(cfg, "w").write(f'CONSTANTS EscSet = "{s}" MaxLen = {maxlen if s == "store" else 3} PairLen = {1 if ctx.quick else 2}\nSPECIFICATION Spec\nINVARIANTS Law\n')
        r = tlc_must_pass(ctx, "files/HivePathLaws", cfg=cfg, workers=2, tag=f"hp_{s}", timeout=3000)
        st["states"] += r.distinct
        st["transitions"] += r.generated
        st[f"hivepath_strings_{s}"] = r.distinct
    # negative control: without '%' in the escape set the law must fail (so the law is not vacuous)
    cfg = ctx.path("hp_broken.cfg")
    open(cfg, "w").write('CONSTANTS EscSet = "broken" MaxLen = 3 PairLen = 1\nSPECIFICATION Spec\nINVARIANTS Law\n')
    r = tlc(ctx, "files/HivePathLaws", cfg=cfg, workers=2, tag="hp_broken", timeout=3000)
    if r.ok and not r.invariant_violated:
        raise ToolError("HivePath negative control: the escape set without '%' was accepted by TLC")
    st["hivepath_negative_control"] = "rejected (escape set without '%': " + ("invariant Law violated" if r.invariant_violated else "assumption Injective false") + ")"
    # Demux invariants, exhaustive over the scope
    cfg = ctx.path("demux.cfg")
    nb, bl = (3, 1) if ctx.quick else (3, 2)
    open(cfg, "w").write(f'CONSTANTS EscSet = "store" NB = {nb} BL = {bl}\nSPECIFICATION Spec\n'
                         "INVARIANTS Conservation Placement DataUnchanged DistinctDirs Shape\n")
    r = tlc_must_pass(ctx, "files/Demux", cfg=cfg, workers=4, tag="demux", coverage=True, timeout=3000)
    ac = r.action_counts()
    for a in ("Init", "Consume"):
        if ac.get(a, (0, 0))[0] == 0:
            raise ToolError(f"vacuity: Demux action {a} never taken ({ac})")
    st["states"] += r.distinct
    st["transitions"] += r.generated
    st["demux_states"] = r.distinct
    st["demux_scope"] = f"up to {nb} batches of up to {bl} rows, 5 row values, 8 configurations"
    return st


def generate(ctx, ncases):
    """One TLC run: every initial state of DemuxGen is a case (value pools drawn per case)."""
    seed = ctx.seed * 1000
    cfg = ctx.path("gen.cfg")
    open(cfg, "w").write(f'CONSTANTS EscSet = "store" NB = 1 BL = 1 NCases = {ncases} PNull = 1\nSPECIFICATION GenSpec\nINVARIANTS Emit\n')
    t = tlc_must_pass(ctx, "files/DemuxGen", cfg=cfg, workers=1, tag="gen", mode_args=["-seed", str(seed)], timeout=3000)
    got = tlc_cases(t.out)
    origin = f"DemuxGen.tla NCases={ncases} seed={seed}"
    return [convert(c, c["idx"], origin) for c in got], t.distinct


def selftest(ctx, cases, passed):
    """Binding demonstration: corrupt the expectation of passing cases; every corruption must be rejected."""
    mut = []
    for c in cases:
        if c["idx"] not in passed or c["pnull"] or len(c["expect"]) < 2:
            continue
        k = len(mut) % 4
        m = json.loads(json.dumps(c))
        m["idx"] = 900000 + len(mut)
        if k == 0:      # an expected data value changed
            m["expect"][0][2] = "corrupted"
        elif k == 1:    # an expected row dropped
            m["expect"] = m["expect"][1:]
        elif k == 2 and m["partby"]:   # a partition value changed in the expectation
            i = [col["name"] for col in m["cols"]].index(m["partby"][0])
            m["expect"][0][i] = "zz" if m["cols"][i]["t"] == "s" else (12345 if m["cols"][i]["t"] == "j" else (not m["expect"][0][i]))
        elif k == 3 and m["dirs"]:     # an expected directory key changed (file placement oracle)
            m["dirs"][0]["key"][0] = "nowhere"
        else:
            m["expect"][-1][2] = "corrupted"
        m["mutation"] = k
        mut.append(m)
        if len(mut) >= 24:
            break
    write_ndjson(ctx.path("mut.ndjson"), mut)
    run_harness(ctx, "vfiles", ["c25", "--cases", ctx.path("mut.ndjson"), "--out", ctx.path("mut.json"), "--dir", ctx.path("out")], timeout=3000)
    res = json.load(open(ctx.path("mut.json")))
    bad = {v["case"]["idx"] for v in res["violations"]}
    missed = [m["idx"] for m in mut if m["idx"] not in bad]
    if missed:
        raise ToolError(f"binding self-test: {len(missed)} corrupted expectations were accepted: {missed[:5]}")
    return len(mut)


def run(ctx):
    build("vfiles")
    os.makedirs(ctx.path("out"), exist_ok=True)
    if ctx.replay:
        run_harness(ctx, "vfiles", ["c25", "--replay", os.path.abspath(ctx.replay), "--out", ctx.path("res.json"), "--dir", ctx.path("out")])
        res = json.load(open(ctx.path("res.json")))
        for v in res["violations"]:
            report_violation(ctx, v, key=known_key(v))
        write_evidence(ctx, "exploration", {"evaluations": max(1, res["evaluations"]), "distinct_nontrivial": 2, "rule": "replay of one recorded case",
                                            "samples": res["samples"] or [{"replay": ctx.replay}]})
        return
    st = spec_checks(ctx)
    ncases = 360 if ctx.quick else 2400
    cases, gstates = generate(ctx, ncases)
    if len(cases) < ncases:
        raise ToolError(f"too few cases from TLC: {len(cases)}")
    write_ndjson(ctx.path("cases.ndjson"), cases)
    summary, _ = run_harness(ctx, "vfiles", ["c25", "--cases", ctx.path("cases.ndjson"), "--out", ctx.path("res.json"), "--dir", ctx.path("out")], timeout=6000)
    res = json.load(open(ctx.path("res.json")))
    if res["tool_errors"]:
        raise ToolError("harness machinery errors: " + "; ".join(res["tool_errors"][:3]))
    cnt = res["counters"]
    total_v = cnt.get("violations_total", 0)
    for v in res["violations"]:
        report_violation(ctx, v, key=known_key(v))
    if total_v > len(res["violations"]):
        ctx.assumptions.append(f"{total_v} oracle rejections in this run, the first {len(res['violations'])} were classified")
    unsupported = cnt.get("cases_unsupported", 0)
    if unsupported * 4 > len(cases):
        raise ToolError(f"{unsupported} of {len(cases)} cases were refused by the engine as unsupported: the generator is off")
    for need in ("ok_copy_csv", "ok_copy_json", "ok_copy_parquet", "ok_insert_csv", "ok_insert_json", "ok_insert_parquet", "ok_df_csv", "ok_df_json", "ok_df_parquet"):
        if cnt.get(need, 0) == 0:
            raise ToolError(f"vacuity: no case completed for {need}")
    if cnt.get("dirs_spelled_as_spec_encode", 0) == 0:
        raise ToolError("vacuity: no partition directory was compared with the specification's Encode")
    nmut = selftest(ctx, cases, set(res["passed"])) if (ctx.quick and ctx.seed == 1) or os.environ.get("VERIF_SELFTEST") else 0
    esc = sum(1 for c in cases for d in c["dirs"] if "%" in d["dir"])
    write_evidence(ctx, "exploration", {
        "evaluations": res["evaluations"],
        "distinct_nontrivial": res["distinct_nontrivial"],
        "rule": "a case is <dataset in batches, write path (COPY / INSERT twice / DataFrame::write_*), format, compression, PARTITIONED BY choice, "
                "single_file_output / path shape, soft_max_rows_per_output_file, minimum_parallel_output_files, target partitions, reader> generated by TLC "
                "from DemuxGen.tla; non-trivial = at least 2 rows read back and (2 or more partition directories, or an unpartitioned output); "
                "distinct = distinct <method, format, compression, rows, partition columns, single>",
        "samples": res["samples"][:2],
        "states": st["states"] + gstates, "transitions": st["transitions"],
        "spec_checks": st,
        "cases_from_tlc": len(cases),
        "cases_partitioned": sum(1 for c in cases if c["partby"]),
        "cases_with_null_partition_value": sum(1 for c in cases if c["pnull"]),
        "expected_directories_needing_escapes": esc,
        "cases_refused_as_unsupported": unsupported,
        "binding_selftest_corruptions_rejected": nmut,
        "counters": cnt,
    }, assumptions=[
        "CsvEquiv (DemuxGen.tla): in a CSV file NULL and the empty string share one encoding; with the default reader options a string column stored "
        "in the file reads both back as NULL; partition columns are exact; JSON (NULL = omitted key) and Parquet are exact",
        "NULL partition values have no Hive directory: a write that holds one must fail or read back exactly (INSERT fails: partition columns of a "
        "listing table are NOT NULL; COPY / DataFrame writes fail in the demuxer since /repo 84b2676, before that they filed NULL under '' / 0 / false)",
        "files are written to the local file system below work/C25/out and read back in a fresh SessionContext with an explicit schema "
        "(CREATE EXTERNAL TABLE, or ListingTable API); CSV is read with newlines_in_values=true (the pool holds a newline); "
        "execution.keep_partition_by_columns=true and Arrow IPC files are not exercised",
        "directory spelling: the oracle is 'decodes (hand-written percent-decoder) to a key of the written rows'; equality with the "
        "specification's Encode (object-store escape set) is reported as a counter, not a verdict; the number of files predicted by Demux.tla "
        "is compared when the batches reaching the sink are determined (drift counter)",
        "binding demonstrated: lib/c25.py selftest corrupts an expected value / drops an expected row / changes an expected partition value / "
        "changes an expected directory key in passing cases, every corruption is rejected by the driver (seed 1 quick, or VERIF_SELFTEST=1); "
        "HivePathLaws with the escape set lacking '%' is rejected by TLC on every run",
    ])
