"""C37 — see lib/transport.py (shared driver of C35-C38) and harness/vaux/src/transport.rs."""
import transport

WHAT = {"35": "unoptimized and optimized logical plan through logical_plan_to_bytes / from_bytes in a fresh session",
        "36": "physical plan through physical_plan_to_bytes / from_bytes in a fresh session",
        "37": "unoptimized and optimized logical plan through to_substrait_plan / from_substrait_plan",
        "38": "unoptimized and optimized logical plan through plan_to_sql (default dialect) and SessionContext::sql"}


def run(ctx):
    transport.run_mode(ctx, "c37", WHAT["37"])
