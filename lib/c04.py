"""C04 — expression simplification never changes an expression's value.

B2 in semantic form: TLC-generated expressions (spec/sem/ExprGen.tla: the "simp" family of shapes the simplifier has
rules for, over reused random sub-expressions, plus the C33 families) are simplified by the REAL ExprSimplifier
(nullable / non-nullable / mixed column schemas, with_guarantees, canonicalisation on/off) and by
PhysicalExprSimplifier.  Each result is converted back into the AST and recorded as an event <before, after, scope>;
spec/sem/SimpTrace.tla accepts an event iff for every row of the exhaustive table in scope
Eval(before,row) # ERR => Eval(after,row) = Eval(before,row).  A rejection yields witness rows; a violation is raised
only when the engine itself — evaluating both expressions on that row — exhibits the difference (DESIGN.md §6).
Results outside the AST are checked by the same engine-vs-engine evaluation on every row of the scope (B3 fallback)."""
import json, collections
from common import *
import exprcases


def plan_for(ctx):
    if ctx.quick:
        return [dict(fam="simp", tbl="A", n=260), dict(fam="simp", tbl="B", n=150),
                dict(fam="rand", tbl="A", n=90, d=3), dict(fam="rand", tbl="B", n=50, d=3),
                dict(fam="inlist", tbl="A", n=25), dict(fam="inlist", tbl="B", n=25),
                dict(fam="case", tbl="A", n=30), dict(fam="case", tbl="B", n=15),
                dict(fam="guard", tbl="A", n=15), dict(fam="like", tbl="A", n=40), dict(fam="rxcore", tbl="C", n=100000), dict(fam="rx", tbl="C", n=70)]
    return [dict(fam="simp", tbl="A", n=100000), dict(fam="simp", tbl="B", n=100000),
            dict(fam="rand", tbl="A", n=1500, d=3), dict(fam="rand", tbl="A", n=500, d=4), dict(fam="rand", tbl="B", n=800, d=3),
            dict(fam="inlist", tbl="A", n=300), dict(fam="inlist", tbl="B", n=300),
            dict(fam="case", tbl="A", n=100000), dict(fam="case", tbl="B", n=100000),
            dict(fam="guard", tbl="A", n=100000), dict(fam="guard", tbl="B", n=100000), dict(fam="like", tbl="A", n=100000),
            dict(fam="rxcore", tbl="C", n=100000), dict(fam="rx", tbl="C", n=3000)]


def _walk(e):
    if isinstance(e, dict):
        yield e
        for v in e.values():
            yield from _walk(v)
    elif isinstance(e, list):
        for v in e:
            yield from _walk(v)


def finding_key(case, header, r, sibling=None):
    """Narrow keys of genuine simplifier defects listed in known_findings.json (anything else raises)."""
    if r.get("type_changed") or r.get("after_plan_error") or not r.get("engine_diff_rows"):
        return None
    diffs = r["engine_diff_rows"]                      # [table_row, before, after]
    # (0) simplify_predicates compares equality conjuncts syntactically: `0 = c AND c = 0` is "two different equalities" -> false
    if r["variant"] == "simplify-predicates" and "Boolean(false)" in (r.get("after") or ""):
        def conjuncts(x):
            if x.get("op") == "bin" and x.get("f") == "and":
                return conjuncts(x["l"]) + conjuncts(x["r"])
            return [x]
        eqs = {}
        for q in conjuncts(case["e"]):
            if q.get("op") == "bin" and q.get("f") == "=":
                for a, b, side in ((q["l"], q["r"], "col-left"), (q["r"], q["l"], "col-right")):
                    if a.get("op") == "col" and b.get("op") == "lit":
                        eqs.setdefault((a["i"], json.dumps(b["v"], sort_keys=True)), set()).add(side)
        if any(len(v) == 2 for v in eqs.values()) and all(d[1] == "1" and d[2] == "0" for d in diffs):
            return "simplify-predicates-mirrored-equalities"
    rows = exprcases.table_rows(header, case["tbl"])
    # (1) guarantee MaybeNull{[v,v]}: the column is replaced by the literal v although it may be NULL
    single = [g["col"] for g in r.get("guar", []) if g["nk"] == "maybe" and g["lo"] == g["hi"]]
    # ... unless the same case WITHOUT guarantees (variant `nullable`) is rewritten to the same expression and differs on
    # the same rows in the same way: then the guarantee is not the cause and the later keys decide
    same_without_guarantee = False
    if sibling is not None and sibling.get("after") == r.get("after") and sibling.get("engine_diff_rows"):
        sib = {d[0]: (d[1], d[2]) for d in sibling["engine_diff_rows"]}
        same_without_guarantee = all(sib.get(d[0]) == (d[1], d[2]) for d in diffs)
    if single and not same_without_guarantee and all(any(rows[d[0] - 1][c - 1]["k"] == "n" for c in single) for d in diffs):
        return "guarantee-maybenull-single-value-replaced-by-literal"
    # (2) IN-list set algebra (x [NOT] IN l1 AND/OR x [NOT] IN l2 -> intersection / union / difference, empty -> literal)
    #     forgets that the needle or a list element may be NULL: the only differences are NULL vs TRUE/FALSE
    # structural condition: at least two IN lists (or column = / <> literal comparisons, which the simplifier treats as
    # one-element lists) over the SAME needle occur below an AND / OR (possibly under NOT, which is pushed into the list)
    def needles(x):
        out = []
        for n in _walk(x):
            if n.get("op") == "in":
                out.append(json.dumps(n["e"], sort_keys=True))
            elif n.get("op") == "bin" and n.get("f") in ("=", "<>"):
                if n["l"].get("op") == "col" and n["r"].get("op") == "lit":
                    out.append(json.dumps(n["l"], sort_keys=True))
                elif n["r"].get("op") == "col" and n["l"].get("op") == "lit":
                    out.append(json.dumps(n["r"], sort_keys=True))
        return out
    pair = False
    for n in _walk(case["e"]):
        if n.get("op") == "bin" and n.get("f") in ("and", "or"):
            ln, rn = needles(n["l"]), needles(n["r"])
            if any(x in rn for x in ln):
                pair = True
                break
    if pair and all((d[1] == "NULL") != (d[2] == "NULL") and d[2] not in ("ERROR", "TYPE") for d in diffs):
        return "inlist-set-algebra-forgets-null"
    # (2b) `-A & A -> 0`, `-A | A -> -1`, `-A ^ A -> -1` (A not nullable by schema, guarantee or construction): the rules meant for bitwise NOT are keyed on the
    #      arithmetic negation Expr::Negative (utils::is_negative_of)
    def neg_of(a, b):
        return a.get("op") in ("un", "tun") and a.get("f") == "neg" and a["e"] == b
    if any(n.get("op") == "bin" and n.get("f") in ("&", "|", "^") and (neg_of(n["l"], n["r"]) or neg_of(n["r"], n["l"])) for n in _walk(case["e"])) \
            and all(d[2] not in ("ERROR", "TYPE", "NULL") and d[1] != "NULL" for d in diffs):
        return "arithmetic-negation-treated-as-bitwise-not"
    # (3) unwrap_cast_in_comparison removes a NARROWING TRY_CAST (TRY_CAST(wide AS narrow) op literal -> wide op literal'):
    #     where the value does not fit the narrow type the original is NULL, the rewritten comparison TRUE/FALSE
    narrowing = {("i", "i32"), ("i", "i16"), ("i", "i8"), ("i32", "i16"), ("i32", "i8"), ("i16", "i8")}
    sch = header["tables"][case["tbl"]]["schema"]

    def src_kind(x):
        if x.get("op") == "col":
            return sch[x["i"] - 1]
        if x.get("op") == "cast":
            return x["to"]
        return x.get("t")
    trycast = any(n.get("op") == "cast" and n.get("try") and (src_kind(n["e"]), n["to"]) in narrowing for n in _walk(case["e"]))
    if trycast and all(d[1] == "NULL" and d[2] in ("0", "1") for d in diffs):
        return "unwrap-narrowing-try-cast-in-comparison"
    return None


def run(ctx):
    build("vexpr")
    if ctx.replay:
        rp = json.load(open(ctx.replay))
        header, cases, gen_states = rp["header"], [rp["case"]], 0
    else:
        header, cases, r = exprcases.generate(ctx, plan_for(ctx), ctx.seed, workers=4 if ctx.quick else 8)
        gen_states = r.distinct
    inp, out, trace = ctx.path("c04.in.ndjson"), ctx.path("c04.out.ndjson"), ctx.path("c04.trace.ndjson")
    write_ndjson(inp, [header] + cases)
    summary, _ = run_harness(ctx, "vexpr", ["c04", "--in", inp, "--out", out, "--trace", trace, "--threads", 4 if ctx.quick else 8], timeout=3000)
    res = read_ndjson(out)
    events = read_ndjson(trace)
    if not events:
        raise ToolError("no simplifier event could be expressed in the specification's AST")
    # ---- trace validation by TLC
    tr = tlc(ctx, "sem/SimpTrace", cfg="sem/SimpTrace.cfg", workers=4 if ctx.quick else 8, env={"TRACE": trace}, xss="64m",
             deadlock=False, timeout=3000, tag="simptrace")
    if not tr.ok:
        sys.stderr.write(tr.out[-4000:])
        raise ToolError("SimpTrace failed (specification-level)")
    verdicts = {v["ev"]: v for v in tlc_cases(tr.out)}
    if len(verdicts) != len(events):
        raise ToolError(f"SimpTrace judged {len(verdicts)} of {len(events)} events")
    by = {(c["p"], c["id"]): c for c in cases}
    rejected = [v for v in verdicts.values() if not v["accepted"]]
    spec_only = []
    simp_errors = []
    stats = collections.Counter()
    changed_distinct = set()
    samples = []
    tool_errors = [r for r in res if "tool_error" in r]
    if tool_errors:
        raise ToolError(f"AST conversion failed: {tool_errors[0]}")
    nullable_of = {(r["p"], r["id"]): r for r in res if r.get("variant") == "nullable"}
    extra_samples = []
    for r in res:
        if r.get("extra"):
            # engine-vs-engine corpus (no TLA+ reference): a change of value / type / a new error on a row the original evaluates
            stats["variant:" + r["variant"].split(":")[0]] += 1
            if r.get("engine_diffs") or (r.get("after_plan_error") and "before_plan_error" not in r):
                report_violation(ctx, {"extra": r, "oracle": "engine-vs-engine: the simplified expression evaluates differently from the original "
                                                             "(value, NULL-ness, data type or an error) on a row where the original has a value"})
            elif r.get("simplify_error"):
                stats["extra_simplify_errors"] += 1
            if r.get("changed") and len(extra_samples) < 3:
                extra_samples.append({"before": r["expr"], "after": r["after"], "table": r["table"], "family": r["variant"]})
            continue
        c = by[(r["p"], r["id"])]
        stats["variant:" + r["variant"].rstrip("0123456789")] += 1
        v = verdicts.get(r["ev"])
        msgs = []
        if r.get("engine_diffs"):
            msgs.append("the engine evaluates the simplified expression differently from the original on a row where the original has a value")
        if r.get("type_changed"):
            msgs.append("simplification changed the expression's data type: " + r["type_changed"])
        if r.get("after_plan_error") and r["variant"].startswith("dataframe-") and "Optimizer rule 'simplify_expressions' failed" in r["after_plan_error"]:
            # the optimizer's constant evaluation raised (e.g. a failing CAST of a constant in a branch no row selects): no
            # simplified expression exists — listed like the direct simplifier errors, not raised
            stats["simplify_errors_in_optimizer"] += 1
            if len(simp_errors) < 8:
                simp_errors.append({"expr": exprcases.show(c["e"], header), "variant": r["variant"], "error": r["after_plan_error"][:200]})
        elif r.get("after_plan_error"):
            msgs.append("the simplified expression cannot be planned although the original can: " + r["after_plan_error"][:300])
        if r.get("simplify_error"):
            # no simplified expression was produced: the property (equal values) is not contradicted; listed in the evidence
            stats["simplify_errors"] += 1
            if len(simp_errors) < 5:
                simp_errors.append({"expr": exprcases.show(c["e"], header), "variant": r["variant"], "guarantees": r.get("guar"), "error": r["simplify_error"][:200]})
        if v is not None and not v["accepted"] and not msgs:
            # the specification found a witness but the engine does not exhibit the difference: not a violation (§6)
            spec_only.append({"expr": exprcases.show(c["e"], header), "after": r.get("after"), "variant": r["variant"], "witness_rows": v["witnesses"][:5]})
        if msgs:
            report_violation(ctx, {"case": c, "header": header, "expr": exprcases.show(c["e"], header), "event": r,
                                   "tlc_verdict": v, "oracle": "; ".join(msgs)},
                             key=finding_key(c, header, r, nullable_of.get((r["p"], r["id"])) if r["variant"].startswith("guarantees") else None))
        if r.get("changed"):
            key = exprcases.show(c["e"], header) + " => " + (r.get("after") or "")
            changed_distinct.add(key)
            if len(samples) < 4 and len(key) < 300 and r["variant"] != "physical-simplifier" and r.get("ast"):
                samples.append({"before": exprcases.show(c["e"], header), "after": r["after"], "variant": r["variant"], "guarantees": r.get("guar"),
                                "tlc": {"accepted": v["accepted"], "rows_in_scope": v["scope"]} if v else None})
    fams = collections.Counter(f"{c['fam']}/{c['tbl']}" for c in cases)
    write_evidence(ctx, "model_checking", {
        "states": tr.distinct, "transitions": tr.generated, "traces_validated_against_impl": len(events),
        "samples": samples or [{"note": "no rewritten expression short enough to print"}],
        "events_accepted": len(events) - len(rejected), "events_rejected_by_spec": len(rejected),
        "spec_rejections_not_exhibited_by_engine": spec_only[:10], "spec_rejections_not_exhibited_by_engine_count": len(spec_only),
        "cases": len(cases), "cases_by_family": dict(fams), "generator_states": gen_states,
        "distinct_rewrites": len(changed_distinct), "simplifier_errors": simp_errors, "engine_only_corpus_samples": extra_samples, "driver": summary, "by_variant": dict(stats),
    }, assumptions=[
        "scope: the exhaustive tables A (300 rows) and B (432 rows) of spec/sem/ExprScope.tla; with non-nullable columns / guarantees the rows "
        "violating them are out of scope (computed independently by the driver and by SimpTrace.InScope)",
        "verdict = witness confirmation: VIOLATION only if the engine itself evaluates before/after differently (value, NULL-ness, data type or an error) "
        "on a row where the original has a value and the reference is not ERR; a TLC rejection the engine does not exhibit is listed, not raised",
        "simplified expressions outside the AST (a function or literal type the simplifier introduced) are judged by the engine-vs-engine evaluation "
        "on every row in scope only (B3 fallback); the physical-expression simplifier likewise",
        "guarantees are drawn by the driver (seeded) as NULL / maybe-NULL / not-NULL intervals over the integer and boolean columns",
        "rule families without a TLA+ reference (date_part / floor preimage, date_trunc, temporal / string / dictionary casts, float identities, power / log, "
        "concat / concat_ws / ||, regexp_like, upper / lower / length, shifts by a column) are covered by a fixed corpus (harness/vexpr/src/extras.rs) judged "
        "engine-vs-engine only: simplified vs unsimplified physical evaluation on every row of small tables",
    ])
