"""C18 — memory-limited queries are exact or fail cleanly, and release everything.

1. TLC model-checks spec/proto/StreamTree.tla in mem mode (every memory limit from 0 to ample on every shape:
   reserved <= limit, a successful end delivers the complete result, an error without an injected fault is
   resource exhaustion, everything released once the stream is gone) and enumerates <shape, limit>.
2. B3: (a) TLC-generated SQL queries (spec/gen/PlanGen.tla; sort / group / join / distinct / set-operation heavy,
   larger tables) whose expected rows come from the TLA+ reference semantics, and (b) the catalogue shapes on a
   2048-row dataset (they really spill), are executed under a sweep of memory limits (1 byte ... ample;
   geometric in quick, dense in thorough) x Greedy/Fair pool x spill compression x max spill file size x merge
   fan-in x sort spill reservation.
3. Oracle: Ok => result = reference (TLA+ result / unlimited-memory run: bag, and sequence for total ORDER BY);
   Err => root cause (find_root) is ResourcesExhausted; never panic / hang (progress watchdog, confirmed by a second
   run) / abort; afterwards pool.reserved() = 0, used_disk_space() = 0, temp directory empty, no live task.
"""
import json, collections
from common import *
import sqlcases, vlife
from c20 import SPILL_SHAPES

BIG = dict(SPILL_SHAPES)
BIG.update({
    "hash_join": dict(sql="SELECT l.id AS a, r.id AS b FROM l JOIN r ON l.k = r.k AND l.v = r.w", tp=1, pl=1),
    "hash_join_part": dict(sql="SELECT l.id AS a, r.id AS b FROM l JOIN r ON l.k = r.k AND l.v = r.w", tp=2, pl=2, settings=vlife.HJ_PART),
    "nlj": dict(sql="SELECT l.id AS a, r.id AS b FROM l JOIN r ON l.v + 9 < r.w", tp=1, pl=1),
    "nlj_parts": dict(sql="SELECT l.id AS a, r.id AS b FROM l JOIN r ON l.v + 9 < r.w", tp=4, pl=2),
    "bounded_window": dict(sql="SELECT id, k, sum(v) OVER (PARTITION BY k ORDER BY id) AS sw FROM l", tp=1, pl=1),
    "window_parts": dict(sql="SELECT id, k, sum(v) OVER (PARTITION BY k ORDER BY id) AS sw FROM l", tp=4, pl=2),
    "distinct": dict(sql="SELECT DISTINCT id % 301 AS g, s FROM l", tp=2, pl=2),
    "cross_agg": dict(sql="SELECT count(*) AS c, sum(a.v) AS sv FROM (SELECT v FROM l WHERE id < 64) AS a CROSS JOIN r", tp=1, pl=1),
    "smj_full": dict(sql="SELECT l.id AS a, r.id AS b FROM l FULL JOIN r ON l.id = r.w + 100", tp=2, pl=2, settings=vlife.SMJ),
    "topk": dict(sql="SELECT id, v, s FROM l ORDER BY v DESC, id LIMIT 50", tp=2, pl=2, ordered=True),
    "union_sort": dict(sql="SELECT id, k FROM (SELECT id, k FROM l UNION ALL SELECT id, k FROM r) AS u ORDER BY k, id", tp=2, pl=1, ordered=True),
})

LIMITS_Q = [1, 700, 6_000, 24_000, 60_000, 150_000, 600_000, 64 << 20]
COMPRESSION = ["uncompressed", "lz4_frame", "zstd"]


def limits(ctx):
    if ctx.quick:
        return LIMITS_Q
    xs = [1, 64, 700]
    v = 2_000
    while v < 2_000_000:
        xs.append(int(v))
        v *= 1.35
    return xs + [64 << 20]


def config(ctx, i, lim):
    """memory configuration + session settings of the i-th limited run (all dimensions vary with i and the seed)."""
    x = i * 7 + ctx.seed * 3
    mem = {"pool": ("greedy", "fair")[x % 2], "limit": lim}
    if x % 5 == 1:
        mem["fan_in"] = (2, 3, 8)[(x // 5) % 3]
    st = [["datafusion.execution.spill_compression", COMPRESSION[(x // 2) % 3]],
          ["datafusion.execution.sort_spill_reservation_bytes", ("1024", "0", "16384", "10485760")[(x // 3) % 4]],
          ["datafusion.execution.sort_in_place_threshold_bytes", ("0", "1048576")[(x // 7) % 2]]]
    if x % 4 == 2:
        st.append(["datafusion.execution.max_spill_file_size_bytes", ("1024", "65536", "4096")[(x // 4) % 3]])
    return mem, st


NLJ_FALLBACK_MSGS = ("partition not used yet", "inner future panicked during poll", "Left side produced no data to spill")


def finding_key(r, ref_ops, cls=None):
    """Narrow keys of genuine engine defects (known_findings.json); anything else raises."""
    nlj = any(o.split(":")[0] == "NestedLoopJoinExec" for o in ref_ops)
    text = (r.get("err") or "") + " " + (r.get("err_root") or "")
    if nlj and cls in ("panic", "other_error") and any(m in text for m in NLJ_FALLBACK_MSGS):
        return "nlj-oom-fallback-reexecutes-left-child-with-repartition"
    left_emitting = any(o.split(":")[0] == "NestedLoopJoinExec" and o.split(":")[-1] in ("Left", "LeftSemi", "LeftAnti", "LeftMark", "Full") for o in ref_ops)
    if left_emitting and cls == "wrong_result" and (r.get("counters") or {}).get("spill_writes", 0) > 0:
        return "nlj-memory-limited-fallback-left-emitting-join-multi-partition"
    if r.get("outcome") == "err" and "ran out of memory with no aggregated groups" in (r.get("err_root") or "") \
            and any(o.startswith("AggregateExec:Single") for o in ref_ops):
        return "aggregate-oom-with-no-groups-reports-internal-error"
    return None


def judge(it, r, ref, meta):
    oc = r["outcome"]
    if oc == "plan_err":
        return None, "plan_err"
    if oc == "abort":
        return f"process abort (rc={r.get('rc')}) under a memory limit", "abort"
    if oc == "hang":
        return "no progress under a memory limit: neither finished nor failed (watchdog, confirmed by a second run)", "hang"
    if oc == "panic":
        return "panic under a memory limit: " + (r.get("err") or "")[:200], "panic"
    rel = vlife.released(r)
    if oc == "err":
        if not r.get("err_root_re"):
            return f"failed with an error whose root cause is not ResourcesExhausted: {r.get('err_root')} / {(r.get('err') or '')[:200]}", "other_error"
        return (rel and "after the failed query: " + rel), "resources_exhausted"
    if oc == "ok":
        if meta.get("case") is not None:
            msg = sqlcases.compare(meta["case"], r.get("rows", []), None)
        else:
            msg = None
            if r.get("n_rows") != ref.get("n_rows") or r.get("bag_hash") != ref.get("bag_hash"):
                msg = f"{r.get('n_rows')} rows but the unlimited run returns {ref.get('n_rows')} rows (bag differs)"
            elif meta.get("ordered") and r.get("seq_hash") != ref.get("seq_hash"):
                msg = "right bag but a different row order than the unlimited run (total ORDER BY)"
        if msg:
            return "wrong result under a memory limit: " + msg, "wrong_result"
        return (rel and "after the finished query: " + rel), ("exact_spilled" if (r.get("counters") or {}).get("spill_writes") else "exact")
    return f"unexpected outcome {oc}", "tool"


def run(ctx):
    build("vlife")
    if ctx.replay:
        return replay(ctx)
    quick = ctx.quick
    mc_shapes = [s for s in vlife.pick_mc_shapes(ctx, extra=["sort", "spm"])]
    cases, mbg = vlife.stream_tree_cases(ctx, "mem", 2, mc_shapes, workers=4 if quick else 8)
    model_limit_cases = len(cases)
    datasets = {}
    lims = limits(ctx)

    # ---------------- (b) catalogue shapes on the big dataset
    items, metas, refs = [], {}, []
    n = 0
    for sh, b in BIG.items():
        dsn = f"big-{b['pl']}"
        if dsn not in datasets:
            datasets[dsn] = vlife.std_tables(8, 128, b["pl"], 1)
        ex = dict(vlife.exec_of(dict(b, settings=b.get("settings", []))), batch_size=128)
        refs.append({"id": f"ref:{sh}", "sql": b["sql"], "dataset": dsn, "exec": ex})
        ls = lims if not quick else [lims[(j + n + ctx.seed) % len(lims)] for j in range(0, len(lims), 2)] + [lims[3 + (ctx.seed + n) % 3]]
        for lim in sorted(set(ls)):
            mem, st = config(ctx, n, lim)
            v = (ctx.seed + n) % 3
            it = {"id": f"big:{sh}:{lim}:{n}", "sql": b["sql"], "dataset": dsn, "mem": mem,
                  "exec": dict(ex, settings=ex["settings"] + st, rt="current" if v == 0 else "multi", poll="collect" if v == 1 else "stream")}
            items.append(it)
            metas[it["id"]] = dict(shape=sh, ref=f"ref:{sh}", ordered=b.get("ordered", False))
            n += 1

    # ---------------- (a) TLC-generated SQL
    nq = 40 if quick else 500
    feats = ["join", "agg", "setop", "sort", "limit", "distinct", "subquery"]
    gens = [(2, 1, ctx.seed + 70, feats), (2, 1, ctx.seed + 170, ["join", "agg", "sort", "distinct"])] if quick else \
           [(2, 1, ctx.seed + 70, feats), (3, 1, ctx.seed + 170, feats), (2, 2, ctx.seed + 270, None)]
    sqlc, pg_states = [], 0
    gen_out = vlife.parallel([(lambda gi=gi, d=d, ed=ed, sd=sd, fs=fs: sqlcases.generate(
        ctx, nq // len(gens), sd, depth=d, edepth=ed, maxrows=6, features=fs, tag=f"plangen{gi}", workers=2)) for gi, (d, ed, sd, fs) in enumerate(gens)])
    for gi, (cs, gr) in enumerate(gen_out):
        pg_states += gr.distinct
        for c in cs:
            c["id"] = f"q{gi}-{c['id']}"
        sqlc += cs
    for qi, c in enumerate(sqlc):
        parts = 1 + (qi + ctx.seed) % 2
        base = {"target_partitions": [1, 4][(qi // 2 + ctx.seed) % 2], "partitions": parts, "batch_rows": 2,
                "settings": vlife.SMJ if (qi + ctx.seed) % 4 == 0 else []}
        refs.append({"id": f"sqlref:{c['id']}", "sql": c["sql"], "tables": c["tables"], "exec": base})
        ls = lims if not quick else [lims[(qi + j * 3 + ctx.seed) % len(lims)] for j in range(3)]
        for lim in sorted(set(ls)):
            mem, st = config(ctx, n, lim)
            it = {"id": f"sql:{c['id']}:{lim}:{n}", "sql": c["sql"], "tables": c["tables"], "mem": mem, "exec": dict(base, settings=base["settings"] + st)}
            items.append(it)
            metas[it["id"]] = dict(case=c, sqlref=f"sqlref:{c['id']}")
            n += 1

    res = vlife.run_items(ctx, refs + items, datasets, "mem", procs=6, hang_secs=90, budget=600 if quick else 6000)
    for sh in BIG:
        if res[f"ref:{sh}"]["outcome"] != "ok":
            raise ToolError(f"unlimited run of shape {sh} failed: {res[f'ref:{sh}'].get('err')}")

    classes = collections.Counter()
    nontrivial = set()
    samples = []
    ops_spilled = collections.Counter()
    evaluations = skipped = 0
    for it in items:
        meta = metas[it["id"]]
        r = res[it["id"]]
        if meta.get("case") is not None:
            cal = res[meta["sqlref"]]
            c = meta["case"]
            if cal["outcome"] != "ok" or c["expect"]["err"] or sqlcases.compare(c, cal.get("rows", []), None):
                skipped += 1
                continue
            ref = cal
        else:
            ref = res[meta["ref"]]
        if r["outcome"] == "hang":
            r2 = vlife.confirm(ctx, it, datasets if "dataset" in it else {}, "confirm" + str(evaluations), hang_secs=120)
            if r2["outcome"] != "hang":
                classes["hang_not_confirmed"] += 1
                r = r2
        evaluations += 1
        msg, cls = judge(it, r, ref, meta)
        classes[cls] += 1
        if cls in ("exact_spilled", "resources_exhausted"):
            nontrivial.add((it["sql"], json.dumps(it["mem"], sort_keys=True), json.dumps(it["exec"], sort_keys=True)))
            if cls == "exact_spilled":
                for o in set(r.get("plan_ops") or []):
                    ops_spilled[o] += 1
            if len(samples) < 3 and (not samples or samples[-1]["class"] != cls):
                samples.append({"class": cls, "sql": it["sql"], "mem": it["mem"], "settings": it["exec"]["settings"], "rows": r.get("n_rows"),
                                "spill_writes": r.get("counters", {}).get("spill_writes"), "error": (r.get("err") or "")[:160]})
        if msg:
            rp = {"item": it, "datasets": {it["dataset"]: datasets[it["dataset"]]} if "dataset" in it else {},
                  "ref_item": next(x for x in refs if x["id"] == (meta.get("ref") or meta.get("sqlref"))),
                  "meta": meta, "observed": {k: v for k, v in r.items() if k != "rows"}, "observed_rows": r.get("rows"), "oracle": msg, "class": cls}
            report_violation(ctx, rp, key=finding_key(r, ref.get("plan_ops") or [], cls))
    if classes["tool"]:
        raise ToolError("unexpected harness outcome")
    if classes["exact_spilled"] < 5 or classes["resources_exhausted"] < 5:
        raise ToolError(f"vacuity: too few spilling / exhausted runs: {dict(classes)}")
    mstats = mbg.join()
    write_evidence(ctx, "exploration", {
        "evaluations": evaluations, "distinct_nontrivial": len(nontrivial),
        "rule": "case = <query, memory limit, pool kind, spill compression, max spill file size, merge fan-in, sort spill reservation, runtime flavour>; queries are "
                "TLC-generated SQL (PlanGen, expected rows from the TLA+ semantics) and the StreamTree catalogue shapes on a 2048-row dataset (reference = "
                "unlimited run); non-trivial = the run spilled and returned the exact result, or failed with ResourcesExhausted; distinct by <sql, memory "
                "configuration, session settings>",
        "samples": samples, "outcome_classes": dict(classes), "limits": lims, "stream_tree_model": mstats, "model_limit_cases": model_limit_cases,
        "plangen_states": pg_states, "sql_queries": len(sqlc), "sql_cases_skipped_by_calibration": skipped, "operators_in_spilling_exact_runs": dict(sorted(ops_spilled.items())),
    }, assumptions=[
        "reference for the catalogue shapes is the same engine without a memory limit (the property's own wording); for generated SQL it is the TLA+ relational semantics, calibrated by an unlimited run",
        "row order is compared only for queries with a total ORDER BY",
        "resources are checked after the stream and the plan were dropped (the session and its RuntimeEnv stay alive)",
    ])


def replay(ctx):
    rp = json.load(open(ctx.replay))
    it, refit = rp["item"], rp["ref_item"]
    res = vlife.run_items(ctx, [refit, it], rp.get("datasets", {}), "replay", procs=1, hang_secs=120)
    r, ref = res[it["id"]], res[refit["id"]]
    msg, cls = judge(it, r, ref, rp["meta"])
    if msg:
        report_violation(ctx, dict(rp, observed={k: v for k, v in r.items() if k != "rows"}, oracle=msg), key=finding_key(r, ref.get("plan_ops") or [], cls))
    write_evidence(ctx, "exploration", {"evaluations": 1, "distinct_nontrivial": 2, "rule": "replay of one recorded case", "samples": [{"item": it["id"], "class": cls}]})
