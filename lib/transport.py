"""Shared driver of C35-C38: plans carried through another representation.

Cases: TLC-generated sqlcases (spec/gen/PlanGen.tla over spec/lib/Rel.tla: database + plan + the result
assigned by the TLA+ relational reference) plus a small SQL corpus (windows, recursive CTE, unnest, grouping
sets ...) for which the oracle is "transported plan = original plan, both executed by the engine".

Verdict (DESIGN.md §6 witness confirmation):
  * encoding failures are counted, never violations (the properties are conditional on encoding);
  * structural half (C35/C36): the engine's own Display of the decoded plan differs -> violation;
  * decode failure of something that encoded (C35/C36), generated SQL that does not plan (C38) -> violation;
    a Substrait plan the consumer rejects is counted (C37 speaks about supported plans);
  * semantic half: the transported plan's result disagrees with the TLA+ reference WHILE the original
    plan's result agrees with it (both executed in the engine) -> violation.  If both disagree with the
    reference it is C01's subject and only counted here.
Pre-existing defect classes of the pinned tree are keyed narrowly in known_findings.json.
"""
import json, os, re, collections
from common import *
import sqlcases
import transport_corpus as TC

CORPUS = [
    "SELECT c1, c2, sum(c2) OVER (PARTITION BY c1 ORDER BY c2 NULLS FIRST ROWS BETWEEN 1 PRECEDING AND CURRENT ROW) AS w FROM t1",
    "SELECT c1, row_number() OVER (ORDER BY c1 NULLS LAST, c2 NULLS LAST, c3 NULLS LAST) AS rn FROM t1",
    "SELECT c1, count(*) OVER (PARTITION BY c3) AS n, max(c2) OVER (ORDER BY c1 DESC NULLS FIRST RANGE BETWEEN UNBOUNDED PRECEDING AND CURRENT ROW) AS m FROM t1",
    "SELECT c1, lag(c2, 1, -1) OVER (PARTITION BY c1 ORDER BY c2 NULLS FIRST, c3 NULLS FIRST) AS l FROM t1",
    "SELECT c1, first_value(c2) OVER (PARTITION BY c1 ORDER BY c2 DESC NULLS LAST, c3) AS f FROM t1",
    "SELECT c1, rank() OVER (ORDER BY c2 NULLS FIRST) AS r, dense_rank() OVER (PARTITION BY c1 ORDER BY c2 DESC) AS d FROM t2",
    "SELECT a.c1, b.c2 FROM t1 a JOIN t2 b ON a.c1 = b.c1 AND a.c2 < b.c2",
    "SELECT a.c1, b.c2 FROM t1 a FULL JOIN t2 b ON a.c1 IS NOT DISTINCT FROM b.c1",
    "SELECT a.c1, a.c3, b.c2 FROM t1 a LEFT JOIN t3 b ON a.c3 IS NOT DISTINCT FROM b.c2 AND a.c1 = b.c1",
    "SELECT a.c1 FROM t1 a LEFT JOIN t2 b ON a.c1 = b.c1 WHERE b.c1 IS NULL",
    "SELECT c1, count(DISTINCT c2) AS d, sum(c2) FILTER (WHERE c2 > 0) AS s, min(c3) AS m FROM t1 GROUP BY c1",
    "SELECT c3, c1 FROM t1 ORDER BY c1 DESC NULLS LAST, c2, c3 LIMIT 2",
    "SELECT c1 FROM t1 ORDER BY c1 NULLS FIRST, c2 NULLS FIRST, c3 NULLS FIRST OFFSET 1",
    "SELECT * FROM t1 WHERE c1 IN (SELECT c1 FROM t2)",
    "SELECT c1 FROM t1 UNION SELECT c1 FROM t2",
    "SELECT c1 FROM t1 INTERSECT SELECT c1 FROM t2",
    "SELECT c1 FROM t1 EXCEPT ALL SELECT c1 FROM t2",
    "SELECT c1, c2 FROM t2 WHERE c2 BETWEEN 0 AND 1 OR c1 IS NULL",
    "SELECT c2, CASE WHEN c3 THEN 'y' WHEN NOT c3 THEN 'n' ELSE 'u' END AS k FROM t3",
    "SELECT DISTINCT c3 FROM t1",
    "SELECT c1, c3 || 'x' AS s, upper(c3) AS u, abs(c2) AS a, c2 % 2 AS m FROM t1",
    "SELECT count(*) AS n, sum(c1) AS s, avg(c1) AS a FROM t2",
    "WITH RECURSIVE r(n) AS (SELECT 1 UNION ALL SELECT n + 1 FROM r WHERE n < 3) SELECT n FROM r",
    "SELECT unnest(make_array(c1, c2)) AS u FROM t2",
    "SELECT c1, sum(c2) AS s FROM t1 GROUP BY ROLLUP(c1)",
    "SELECT a.c1, (SELECT max(b.c2) FROM t2 b WHERE b.c1 = a.c1) AS m FROM t1 a",
    "SELECT * FROM (VALUES (1, 'a'), (2, NULL)) AS v(x, y)",
    "SELECT c1, c3 FROM t1 WHERE c3 LIKE 'a%' OR c3 NOT ILIKE '%B'",
    "SELECT c1, CAST(c1 AS VARCHAR) AS s, TRY_CAST(c3 AS BIGINT) AS t FROM t1",
    "SELECT c1, c2 FROM t1 ORDER BY c2 DESC NULLS FIRST, c1 ASC NULLS LAST, c3",
]


def sig(text):
    s = re.sub(r'"[^"]*"', "X", text or "")
    s = re.sub(r"\b[a-z_]*\d+[a-z]*\d*\b", "ID", s)
    s = re.sub(r"-?\d+", "N", s)
    s = re.sub(r"\s+", " ", s)
    return s[:90]


def gen_cases(ctx):
    n = 260 if ctx.quick else 3000
    gens = [(2, 2, ctx.seed), (3, 1, ctx.seed + 1000)] if ctx.quick else \
           [(2, 2, ctx.seed), (3, 2, ctx.seed + 1000), (4, 1, ctx.seed + 2000), (1, 3, ctx.seed + 3000)]
    cases, states, trans = [], 0, 0
    for gi, (d, ed, sd) in enumerate(gens):
        cs, r = sqlcases.generate(ctx, n // len(gens), sd, depth=d, edepth=ed, tag=f"gen{gi}", workers=4 if ctx.quick else 8)
        for c in cs:
            c["id"] = f"g{gi}-{c['id']}"
        cases += cs
        states += r.distinct
        trans += r.generated
    # coverage corpus on the fixed database (external tables, views, API-built plans) + base corpus on generated databases
    corpus = TC.cases(ctx.work, CORPUS)
    dbs = [c for c in cases if all(len(t["rows"]) >= 2 for t in c["tables"])][: (1 if ctx.quick else 6)] or cases[:1]
    for di, d in enumerate(dbs):
        for qi, q in enumerate(CORPUS):
            corpus.append({"id": f"q{di}-{qi}", "sql": q, "tables": d["tables"], "corpus": True, "flags": []})
    return cases, corpus, states, trans


def rows_key(rows):
    return sorted(json.dumps(r, sort_keys=True) for r in rows)


def norm_types(ts):
    return [re.sub(r"^(LargeUtf8|Utf8View)$", "Utf8", t) for t in ts]


def semantic(case, orig, ex):
    """None | ('violation'|'refdis', message)."""
    if case.get("corpus"):
        flags = case.get("flags", [])
        if "err" in orig:
            return None                       # original does not run: nothing to compare
        if "err" in ex:
            return ("violation", "transported plan fails but the original runs: " + ex["err"][:300])
        if "nocmp" in flags:
            return None
        if "count" in flags:
            if len(ex["rows"]) != len(orig["rows"]):
                return ("violation", f"transported plan returns {len(ex['rows'])} rows, the original {len(orig['rows'])}")
            return None
        if "ordered" in flags:
            if [json.dumps(r, sort_keys=True) for r in ex["rows"]] != [json.dumps(r, sort_keys=True) for r in orig["rows"]]:
                return ("violation", "transported plan returns the rows in a different order / different rows than the original (totally ordered query)")
            return None
        if rows_key(ex["rows"]) != rows_key(orig["rows"]):
            return ("violation", f"transported plan returns different rows than the original ({len(ex['rows'])} vs {len(orig['rows'])} rows)")
        return None
    mv = sqlcases.compare(case, ex.get("rows", []), ex.get("err"))
    if not mv:
        return None
    mo = sqlcases.compare(case, orig.get("rows", []), orig.get("err"))
    if mo:
        return ("refdis", mo)
    return ("violation", mv)


def strip_null(t):
    return (t or "").replace(";N", "")


def unplannable_class(err):
    """Named classes of 'generated SQL does not plan' (C38, optimized plans); an unlisted message gets its own key."""
    if re.search(r"Schema error: No field named ", err):
        return "column reference not exposed by the generated sub-select (No field named)"
    if "Projections require unique expression names" in err:
        return "duplicate expression names in a generated projection"
    if "SELECT * with no tables specified" in err:
        return "SELECT * with no tables"
    if re.search(r"not supported for Null|No function matches the given name and argument types .*\(Null", err):
        return "function applied to a bare (untyped) NULL"
    if "UNION queries have different number of columns" in err:
        return "UNION input with an empty projection written with a different number of select items"
    if "which would be ambiguous" in err:
        return "qualified field ambiguous with an unqualified one (DISTINCT ON rewritten to first_value .. GROUP BY)"
    if "join condition should not be empty" in err:
        return "outer join with an empty condition written without ON"
    return "other:" + sig(err)[:60]


def semantic_key(mode, name, case, v, msg, ex):
    """Narrow class of a witness-confirmed semantic disagreement (known_findings.json keys)."""
    pt, gen = v.get("plan_text", ""), v.get("sql") or ""
    feats = sqlcases.features_of(case["plan"]) if "plan" in case else set()
    failed = "err" in ex and ex.get("err")
    sqltxt = case.get("sql", "")
    if mode in ("c36", "c37") and not failed:
        if re.search(r"\(DISTINCT [^()]*\) OVER", sqltxt):
            return "window aggregate DISTINCT is not carried (count(DISTINCT x) OVER ..)"
        if re.search(r"FILTER \(WHERE [^()]*\) OVER", sqltxt):
            return "window aggregate FILTER is not carried (agg(x) FILTER (WHERE ..) OVER ..)"
    if mode == "c36" and not failed and re.search(r"IGNORE NULLS\s+OVER", sqltxt):
        return "window function null treatment (IGNORE NULLS) is not carried"
    if mode == "c37" and not failed and 'Some("+02:00")' in sqltxt and name == "optimized":
        return "cast to Timestamp with a time zone: the zone is not carried (optimized plan)"
    if mode == "c37" and not failed and re.search(r"RANGE BETWEEN (\d+ (PRECEDING|FOLLOWING)|.* AND \d+ (PRECEDING|FOLLOWING))", pt):
        return "window RANGE frame with numeric offsets: consumed plan returns different rows"
    if mode == "c38" and not failed:
        if re.search(r"Aggregate: .*ORDER BY \[", pt) and not re.search(r"\b(array_agg|first_value|last_value|string_agg|nth_value)\([^()]* ORDER BY ", gen):
            return "aggregate function ORDER BY is not unparsed (array_agg(x ORDER BY ..) -> array_agg(x))"
        if re.search(r"IGNORE NULLS", pt) and "IGNORE NULLS" not in gen:
            return "window function null treatment (IGNORE NULLS) is not unparsed"
        if name == "optimized" and "null_aware" in pt and "Filter:" in pt and re.search(r" NOT IN \(SELECT [^()]* FROM \w+ AS \w+\)", gen):
            return "optimized plan: NOT IN (null-aware anti join): the subquery's WHERE filter is not unparsed"
        if name == "optimized" and 'Some("+02:00")' in sqltxt and "TIMESTAMP WITH TIME ZONE" in gen:
            return "optimized plan: cast to Timestamp(unit, zone) unparsed as TIMESTAMP WITH TIME ZONE (unit and zone lost)"
        if name == "optimized" and re.search(r"FROM \(SELECT [^()]* ORDER BY [^()]*\) (LIMIT|OFFSET) ", gen + " "):
            return "optimized plan: ORDER BY written inside a derived table while OFFSET/LIMIT is applied outside it"
        if "SIMILAR TO" in pt and "SIMILAR TO" not in gen and "LIKE '(a|b)+'" in gen:
            return "SIMILAR TO is unparsed as LIKE"
    if mode == "c35":
        if failed and "LIMIT must be >= 0" in msg and re.search(r"Limit: skip=\d+, fetch=None", pt):
            return "Limit.fetch None decoded as i64::MAX"
    if mode == "c37":
        if failed and "scalar_subquery_to_join" in msg and "which would be ambiguous" in msg and "(<subquery>)" in pt:
            return "scalar subquery: consumed plan fails in scalar_subquery_to_join (qualified/unqualified field ambiguous)"
        if failed and "scalar_subquery_to_join" in msg and "unique expression names" in msg and "outer_ref(" in pt:
            return "correlated scalar subquery: consumed plan fails in scalar_subquery_to_join (duplicate expression names)"
        if failed and "decorrelate_predicate_subquery" in msg and "unique expression names" in msg and "outer_ref(" in pt:
            return "correlated subquery: consumed plan fails in decorrelate_predicate_subquery (duplicate expression names)"
        if failed and "type_coercion" in msg and re.search(r"Schema error: No field named (left|right)\.", msg) and "Join" in pt:
            return "consumed join: expressions refer to a side the consumer renamed (No field named left./right.)"
        if failed and "type_coercion" in msg and re.search(r"Schema error: No field named t\d\.c\d", msg) and "Join" in pt:
            return "consumed self/multi-table join: column qualified with the wrong table (No field named tN.cN)"
        if failed and "type_coercion" in msg and re.search(r"Schema contains qualified field name \S+ and unqualified field name \S+ which would be ambiguous", msg) and ("Join" in pt or "Union" in pt):
            return "consumed join/union: qualified field ambiguous with an unqualified one (type_coercion)"
        if not failed and name == "unoptimized" and "outer_ref(" in pt:
            return "correlated subquery (outer_ref): consumed plan returns different rows"
    if mode in ("c37", "c38") and not failed and name == "optimized" and "null_aware" in pt:
        return "null-aware anti join (NOT IN) loses its null awareness"
    if mode == "c38" and not failed:
        if name == "optimized" and re.search(r"(Semi|Anti) Join:[^\n]*\n\s*Aggregate: groupBy=\[\[[^\n]*\]\], aggr=\[\[\]\]\n", pt) \
                and gen.count("GROUP BY") + gen.count("SELECT DISTINCT") < pt.count("Aggregate:") + pt.count("Distinct:"):
            return "optimized plan: group-by-only Aggregate (DISTINCT) that is the left input of a semi/anti Join is dropped"
        if (feats & {"setop:except", "setop:except:all", "setop:intersect", "setop:intersect:all"}) and "EXISTS (SELECT 1" in gen:
            return "EXCEPT/INTERSECT anti/semi join unparsed as [NOT] EXISTS with '=' (NULL-equal keys lost)"
        if re.search(r"NOT [\w.]+ IS (NOT )?(TRUE|FALSE|UNKNOWN|NULL)", gen) and re.search(r"NOT [\w.]+ IS ", pt):
            return "(NOT x) IS [NOT] TRUE/FALSE/UNKNOWN/NULL unparsed without parentheses (binds as NOT (x IS ..))"
        if name == "optimized" and "EmptyRelation: rows=0" in pt and re.search(r"SELECT [^()]*\)? AS \w+( FROM \()?$|SELECT count\(", gen) and " FROM " not in gen.split("EmptyRelation")[0][-0:] + "":
            pass
        if name == "optimized" and "EmptyRelation: rows=0" in pt and "Aggregate:" in pt:
            return "optimized plan: aggregate over EmptyRelation rows=0 unparsed as a FROM-less SELECT (one input row)"
        if name == "optimized" and re.search(r"Limit: skip=\d+, fetch=\d+\n\s*Sort: .*fetch=\d+", pt):
            return "optimized plan: Limit over Sort with fetch: the sort's fetch is written as the LIMIT"
    return "result differs"


def classify(mode, case, r):
    """Yield (kind, key, detail) issues for one harness record."""
    orig = r.get("orig", {})
    for v in r.get("variants", []):
        name = v["name"]
        pt = v.get("plan_text", "")
        if "enc_err" in v:
            yield ("count", "enc_err:" + sig(v["enc_err"])[:60], None)
            continue
        if "dec_err" in v:
            err = v["dec_err"]
            if mode == "c37":
                yield ("count", "consumer_rejects:" + sig(err)[:60], None)
            elif mode == "c38":
                gen = v.get("sql") or ""
                if "ParserError" in err and re.search(r"--\s*\w", gen) and re.search(r"\(- \(- ", pt):
                    key = "nested unary minus unparsed as '--' (SQL comment)"
                elif "Dot access not supported for non-string expr" in err and re.search(r"\{\w+: [^{}]*\}\.\w+", gen):
                    key = "get_field on a struct constructor unparsed as `{k: v}.k` (does not plan)"
                elif name == "optimized":
                    key = "optimized plan: generated SQL does not plan: " + unplannable_class(err)
                else:
                    key = "generated SQL of the unoptimized plan does not plan: " + sig(err)[:60]
                yield ("violation", key, {"variant": name, "sql": gen, "error": err[:400], "plan": pt})
            elif mode == "c35" and re.search(r"FieldNotFound|No field named", err) and re.search(r"EmptyRelation: rows=0 \[\w", pt):
                yield ("violation", "EmptyRelation.schema dropped: the parent node fails to decode (FieldNotFound)", {"variant": name, "error": err[:300], "plan": pt})
            else:
                yield ("violation", f"decode failed:{sig(err)[:60]}", {"variant": name, "error": err[:400], "plan": pt})
            continue
        if mode in ("c35", "c36") and v.get("text_equal") is False:
            d = v.get("text_diff") or {}
            o, dd = d.get("original", ""), d.get("decoded", "")
            key = None
            if mode == "c35" and o.lstrip().startswith("TableScan") and "fetch=" in o and "fetch=" not in dd and o.split(", fetch=")[0] == dd:
                key = "TableScan.fetch dropped"
            elif mode == "c35" and re.match(r"\s*Limit: skip=\d+, fetch=None", o) and dd == o.replace("fetch=None", "fetch=9223372036854775807"):
                key = "Limit.fetch None decoded as i64::MAX"
            elif mode == "c35" and o.lstrip().startswith("TableScan") and " projection=[" in o and dd == o.split(" projection=[")[0] and "RecursiveQuery" in pt:
                key = "TableScan.projection dropped (recursive query work table)"
            elif mode == "c35" and o.startswith("CopyTo: ") and "options: (" in o and dd == o.split("options: (")[0] + "options: ()":
                key = "CopyTo.options dropped"
            elif mode == "c35" and dd.strip().startswith("Union") and len(re.findall(r"^(\s*)Union", pt, re.M)) == 1 and not o.strip().startswith("Union"):
                key = "Union with more than two inputs decodes as nested binary Unions"
            elif mode == "c36" and "UnionExec" in pt and re.match(r"\s*ProjectionExec: expr=\[((CAST\()?(\w+)@\d+( AS \w+\))? as \3(, )?)+\]", dd):
                key = "UnionExec child wrapped in an extra ProjectionExec"
            else:
                key = "plan text differs:" + sig(o)[:50]
            if key:
                yield ("violation", key, {"variant": name, "diff": d, "plan": pt})
        elif mode == "c35" and v.get("schema_text_equal") is False:
            yield ("count", "same_text_but_schemas_differ", None)
        elif mode == "c35" and v.get("exprs_equal") is False:
            # same textual form but a different expression list (e.g. Limit skip=0 kept as None): not what the property states
            yield ("count", "same_text_but_node_expression_lists_differ", None)
        elif mode == "c36" and v.get("nullability_equal") is False:
            yield ("count", "schema_nullability_markers_differ", None)
        elif mode == "c36" and v.get("props_equal") is False:
            # equivalent orderings may be printed through a different member of an equivalence class
            yield ("count", "output_partitioning_or_ordering_debug_differs", None)
        elif mode == "c35" and v.get("plan_eq") is False:
            yield ("count", "plan_eq_false_same_text", None)
        ex = v.get("exec")
        if ex is None:
            continue
        s = semantic(case, orig, ex)
        if s:
            kind, msg = s
            if kind == "refdis":
                yield ("count", "reference_disagreement_on_original_too", None)
            else:
                yield ("violation", semantic_key(mode, name, case, v, msg, ex),
                       {"variant": name, "oracle": msg, "plan": pt, "sql": v.get("sql"), "observed": {k: ex.get(k) for k in ("rows", "err")},
                        "original_result": {k: orig.get(k) for k in ("rows", "err")}})
        elif "rows" in ex and "types" in orig and mode in ("c37", "c38") and norm_types(ex["types"]) != norm_types(orig["types"]):
            nt, ot = norm_types(ex["types"]), norm_types(orig["types"])
            key = "output types differ"
            if mode == "c38" and name == "optimized" and re.search(r"\b\w+\(NULL\)", pt) and re.search(r"\bNULL\b", v.get("sql") or ""):
                key = "optimized plan: typed NULL literal unparsed as bare NULL (output column types change)"
            yield ("violation", key, {"variant": name, "types": ex["types"], "original_types": orig["types"], "plan": pt, "sql": v.get("sql")})
        elif mode == "c35" and "rows" in ex and "types" in orig and ex.get("types") != orig.get("types"):
            yield ("count", "decoded_result_schema_differs_rows_equal", None)
            yield ("ok", name, None)
        else:
            yield ("ok", name, None)
    for d in r.get("dialects", []):
        if "enc_err" in d:
            yield ("count", f"dialect_{d['dialect']}_unsupported", None)
        elif d.get("parses"):
            yield ("ok", "dialect:" + d["dialect"], None)
        else:
            yield ("count", f"dialect_{d['dialect']}_text_does_not_parse", None)
    for f in r.get("expr_fail", []):
        if "dec_err" in f and re.search(r"FieldNotFound|No field named", f["dec_err"]) and "Subquery" in f.get("original", ""):
            yield ("violation", "EmptyRelation.schema dropped: the parent node fails to decode (FieldNotFound)", {"expr": f})
        else:
            k = pool_key({"expr": f.get("original", ""), "decoded": f.get("decoded", ""), "dec_err": f.get("dec_err", "")})
            if k.startswith("pool expression"):
                k = "expression round trip:" + sig(f.get("original", ""))[:50]
            elif f.get("original", "").startswith("BinaryExpr(") and "Placeholder" in f.get("original", ""):
                k = "Placeholder.field: only the data type is serialized (field name lost)"
            yield ("violation", k, {"expr": f})


def pool_key(e):
    x, dec = e.get("expr", ""), str(e.get("decoded", ""))
    if x.startswith("Literal(Float16") and dec.startswith("Literal(Float32"):
        return "scalar Float16 decoded as Float32"
    m = re.search(r"op: (Arrow|LongArrow|HashArrow|HashLongArrow|AtAt|IntegerDivide|HashMinus|AtQuestion|Question|QuestionAnd|QuestionPipe),", x)
    if m and "Unsupported binary operator" in e.get("dec_err", ""):
        return "BinaryExpr operator encodes but from_proto does not know it (Arrow/LongArrow/HashArrow/HashLongArrow/AtAt/IntegerDivide/HashMinus/AtQuestion/Question/QuestionAnd/QuestionPipe)"
    if x.startswith("Placeholder(") and "field: Some(Field { name: \"\"" in dec.replace("\\", ""):
        return "Placeholder.field: only the data type is serialized (field name lost)"
    if "Placeholder(Placeholder" in x and 'name: ""' in dec and x.replace(re.search(r'field: Some\(Field \{ name: "[^"]*"', x).group(0) if re.search(r'field: Some\(Field \{ name: "[^"]*"', x) else "\0", 'field: Some(Field { name: ""') == dec:
        return "Placeholder.field: only the data type is serialized (field name lost)"
    if x.startswith("Alias(") and "metadata: Some(" in x and "metadata: None" in dec:
        return "Alias.metadata dropped"
    if x.startswith("Literal(") and "Some(FieldMetadata" in x and dec.endswith(", None)"):
        return "Literal metadata dropped"
    if x.startswith("SimilarTo(") and "case_insensitive: true" in x and "case_insensitive: false" in dec:
        return "SimilarTo.case_insensitive dropped"
    return "pool expression round trip:" + sig(x)[:50]


TC_POOL_REQUIRED = {"BinaryExpr:" + o for o in ("Eq NotEq Lt LtEq Gt GtEq Plus Minus Multiply Divide Modulo And Or IsDistinctFrom IsNotDistinctFrom RegexMatch RegexIMatch RegexNotMatch "
                    "RegexNotIMatch LikeMatch ILikeMatch NotLikeMatch NotILikeMatch BitwiseAnd BitwiseOr BitwiseXor BitwiseShiftRight BitwiseShiftLeft StringConcat AtArrow ArrowAt").split()} | {
    "Between:neg=false", "Between:neg=true", "InList:neg=false", "InList:neg=true", "Case:base=false:else=true", "Case:base=true:else=false", "GroupingSet:Rollup", "GroupingSet:Cube",
    "GroupingSet:Sets", "Placeholder:typed=false", "Negative", "Not", "IsNull", "IsNotNull", "IsTrue", "IsFalse", "IsUnknown", "IsNotTrue", "IsNotFalse", "IsNotUnknown", "Unnest", "Column",
    "ScalarFunction", "Alias:rel=true:md=false", "Alias:rel=false:md=false"} | {f"Like:neg={n}:ci={c}:esc={x}" for n in ("true", "false") for c in ("true", "false") for x in ("true", "false")} | {
    f"SimilarTo:neg={n}:ci=false:esc={x}" for n in ("true", "false") for x in ("true", "false")}


CONFIGS = {
    "c35": [[]],
    "c37": [[]],
    "c38": [[]],
    "c36": [["--set", "datafusion.execution.target_partitions=1"],
            ["--partitions", "2", "--set", "datafusion.execution.target_partitions=3", "--set", "datafusion.optimizer.prefer_hash_join=false"],
            ["--partitions", "2", "--set", "datafusion.execution.target_partitions=3", "--set", "datafusion.optimizer.hash_join_single_partition_threshold=0",
             "--set", "datafusion.optimizer.hash_join_single_partition_threshold_rows=0", "--set", "datafusion.execution.batch_size=2"],
            ["--partitions", "3", "--batch-rows", "1", "--set", "datafusion.execution.target_partitions=2", "--set", "datafusion.optimizer.enable_round_robin_repartition=false",
             "--set", "datafusion.optimizer.repartition_joins=false", "--set", "datafusion.optimizer.prefer_existing_sort=true"]],
}


try:
    REQUIRED = {k: set(v) for k, v in json.load(open(os.path.join(os.path.dirname(__file__), "transport_required.json"))).items()}
except Exception:
    REQUIRED = {}


def run_mode(ctx, mode, what):
    build("vaux")
    extra = {}
    if ctx.replay:
        rp = json.load(open(ctx.replay))
        allcases, sets = [rp["case"]], [rp.get("exec_args", [])]
        states = trans = 1
    else:
        cases, corpus, states, trans = gen_cases(ctx)
        if mode == "c38":
            corpus = [c for c in corpus if "api" not in c]       # C38 is about plans the engine builds from SQL
        allcases, sets = cases + corpus, CONFIGS[mode]
    byid = {c["id"]: c for c in allcases}
    counts, okc = collections.Counter(), collections.Counter()
    nodes = collections.Counter()
    matrix = collections.defaultdict(lambda: [0, 0])      # tag -> [variants round-tripped, variants the encoder/decoder rejected]
    evaluations, samples, nontrivial = 0, [], set()
    for si, args in enumerate(sets):
        inp, out = ctx.path(f"{mode}-{si}.in.ndjson"), ctx.path(f"{mode}-{si}.out.ndjson")
        write_ndjson(inp, [{k: c[k] for k in ("id", "sql", "tables", "setup", "api") if k in c} for c in allcases])
        run_harness(ctx, "vaux", ["transport", "--mode", mode, "--in", inp, "--out", out] + args, timeout=3000)
        for r in read_ndjson(out):
            c = byid[r["id"]]
            if "tool_err" in r:
                raise ToolError("transport harness: " + r["tool_err"])
            if "plan_err" in r:
                counts["original_does_not_plan"] += 1
                continue
            for n in r.get("nodes", []):
                nodes[n] += 1
            table = TC.P_OPTS if mode == "c36" else TC.L_OPTS
            for v in r.get("variants", []):
                tg = TC.tags(v.get("plan_text", ""), table) | TC.node_tags(v.get("plan_text", ""), "node:")
                done = ("enc_err" not in v and "dec_err" not in v)
                for t in tg:
                    matrix[t][0 if done else 1] += 1
            for kind, key, detail in classify(mode, c, r):
                if kind == "ok":
                    okc[key] += 1
                    evaluations += 1
                    if "rows" in r.get("orig", {}) and r["orig"]["rows"]:
                        nontrivial.add((c["sql"], key))
                    if len(samples) < 2 and r.get("orig", {}).get("rows") and not c.get("corpus"):
                        v0 = r["variants"][0]
                        samples.append({"sql": c["sql"][:600], "tables": {t["name"]: t["rows"] for t in c["tables"]}, "reference_result": c["expect"],
                                        "transported": {k: v0.get(k) for k in ("name", "sql", "bytes")}, "transported_result": v0.get("exec", {}).get("rows")})
                elif kind == "count":
                    counts[key] += 1
                else:
                    evaluations += 1
                    rc = {k: c[k] for k in c if k in ("id", "sql", "tables", "corpus", "flags", "setup", "api", "db", "schemas", "plan", "schema", "mode", "expect", "universe")}
                    report_violation(ctx, {"case": rc, "exec_args": args, "class": key, "detail": detail}, key=key)
    if mode == "c35" and not ctx.replay:
        outp = ctx.path("c35-exprs.out.ndjson")
        summ, _ = run_harness(ctx, "vaux", ["c35-exprs", "--out", outp])
        pool = read_ndjson(outp)
        pool_matrix = collections.Counter()
        for e in pool:
            evaluations += 1
            if "enc_err" in e:
                counts["pool_enc_err"] += 1
            elif e.get("equal") is not True:
                report_violation(ctx, {"case": {"pool_expr": e}, "class": pool_key(e), "detail": e}, key=pool_key(e))
            else:
                okc["pool:" + e["kind"]] += 1
                pool_matrix[e.get("variant", "?")] += 1
        need = TC_POOL_REQUIRED - set(pool_matrix)
        if need:
            raise ToolError(f"vacuity: expression/scalar pool variants that did not round-trip or are missing: {sorted(need)[:8]}")
        extra["pool_matrix"] = dict(sorted(pool_matrix.items()))
        extra["expr_scalar_pool"] = {"size": len(pool), "scalars": sum(1 for e in pool if e["kind"] == "scalar")}
        if summ:
            extra["plan_subexpressions_round_tripped"] = None
    if not ctx.replay:
        if mode == "c36":
            need = ["HashJoinExec", "SortMergeJoinExec", "NestedLoopJoinExec", "AggregateExec", "SortExec", "RepartitionExec", "BoundedWindowAggExec", "UnionExec"]
            missing = [n for n in need if not nodes.get(n)]
            if missing:
                raise ToolError(f"vacuity: physical operators never planned: {missing}")
        if sum(okc.values()) < 50:
            raise ToolError("vacuity: fewer than 50 successful round trips")
    cov = {
        "evaluations": evaluations, "distinct_nontrivial": len(nontrivial),
        "rule": "case = <database, plan> drawn by TLC from PlanGen with the result assigned by the TLA+ reference Rel.EvalPlan, plus a 30-query SQL corpus "
                "(windows, recursive CTE, unnest, rollup, null-equal joins) on generated databases; each case x plan variant (" + what + ") x session layout; "
                "non-trivial = distinct <SQL, variant> whose round trip succeeded on a non-empty result",
        "samples": samples or [{"note": "replay"}],
        "states": states, "transitions": trans,
        "cases": len(allcases), "session_layouts": sets, "round_trips_ok": dict(okc), "counted_not_violations": dict(counts),
        "known_findings_hit": list(ctx.known),
    }
    if nodes:
        cov["physical_operators_seen"] = dict(nodes)
    cov["coverage_matrix"] = {"legend": "tag -> [plan variants with the tag that completed the round trip, variants with the tag that the encoder/decoder rejected]",
                              "tags": {k: v for k, v in sorted(matrix.items())}}
    if not ctx.replay:
        req = REQUIRED.get(mode, set())
        missing = sorted(t for t in req if matrix.get(t, [0, 0])[0] == 0)
        cov["required_tags"] = len(req)
        if missing:
            write_evidence(ctx, "exploration", cov)
            raise ToolError(f"vacuity: plan nodes/options that never completed a round trip in this run: {missing[:12]}")
    cov.update(extra)
    write_evidence(ctx, "exploration", cov, assumptions=[
        "semantic oracle = TLA+ relational reference (Rel.tla) for generated cases, witness-confirmed: a violation needs the original plan to agree with the reference and the transported plan not to; corpus queries use original-vs-transported equality in the engine",
        "encoding failures and (C37) consumer rejections are counted, not violations",
        "MemTable scans cross the logical protobuf through a LogicalExtensionCodec that resolves tables by name in the fresh session; the JSON protobuf form is not exercised (feature off in the harness)",
    ])
