"""sqlcases — TLC-generated query cases (spec/gen/PlanGen.tla over spec/lib/Rel.tla) rendered to SQL.

A *case* (dict) as printed by TLC:
  id, dbseed, planseed, db (list of tables = list of rows = list of values {"k","v"}), schemas (kinds per table),
  plan (AST, see spec/lib/AST.md), schema (output kinds), mode ("bag"|"ordered"|"topk"|"subset"),
  expect {"err":bool,"rows":[...]}, universe (rows the answer must be drawn from for topk/subset)
`render(case)` adds  case["sql"]  and  case["tables"] = [{"name","cols":[{"name","kind"}],"rows"}].
`compare(case, result_rows)` implements the verdict rule per mode and returns None or a message.

Strings: value {"k":"s","v":i} is STR_POOL[i] (pool order = lexicographic order).
"""
import json, os
from common import tlc, tlc_cases, ToolError, SPEC

STR_POOL = {1: "a", 2: "ab", 3: "b"}
SQLTYPE = {"i": "BIGINT", "s": "VARCHAR", "b": "BOOLEAN"}
ALL_FEATURES = ["join", "agg", "setop", "subquery", "sort", "limit", "distinct", "case", "arith"]


def generate(ctx, n, seed, depth=2, edepth=2, maxrows=3, features=None, tag="plangen", workers=4):
    """Run TLC on PlanGen and return the list of cases (with SQL rendered)."""
    feats = ALL_FEATURES if features is None else features
    cfg = ctx.path(f"{tag}.cfg")
    with open(cfg, "w") as f:
        f.write(f"CONSTANTS N = {n}  DEPTH = {depth}  EDEPTH = {edepth}  MAXROWS = {maxrows}\n")
        f.write("  FEATURES = {" + ",".join(f'"{x}"' for x in feats) + "}\n")
        f.write("INIT Init\nNEXT Next\nINVARIANT Emit\nCHECK_DEADLOCK FALSE\n")
    r = tlc(ctx, "gen/PlanGen", cfg=cfg, workers=workers, mode_args=["-seed", str(seed)], tag=tag, xss="64m",
            deadlock=False, timeout=1800)
    if not r.ok:
        import sys
        sys.stderr.write(r.out[-3000:])
        raise ToolError("PlanGen failed")
    cases = tlc_cases(r.out)
    for c in cases:
        render(c)
    return cases, r


# ----------------------------------------------------------------------------- rendering

def lit_sql(v, kind=None):
    k = v["k"]
    if k == "n":
        return f"CAST(NULL AS {SQLTYPE[kind]})" if kind in SQLTYPE else "NULL"
    if k == "i":
        return f"CAST({v['v']} AS BIGINT)" if v["v"] >= 0 else f"CAST(({v['v']}) AS BIGINT)"
    if k == "b":
        return "TRUE" if v["v"] == 1 else "FALSE"
    if k == "s":
        return "'" + STR_POOL[v["v"]] + "'"
    raise ValueError(v)


BINOPS = {"+": "+", "-": "-", "*": "*", "/": "/", "%": "%", "=": "=", "<>": "<>", "<": "<", "<=": "<=", ">": ">",
          ">=": ">=", "and": "AND", "or": "OR", "isdistinct": "IS DISTINCT FROM", "isnotdistinct": "IS NOT DISTINCT FROM"}
UNPOST = {"isnull": "IS NULL", "isnotnull": "IS NOT NULL", "istrue": "IS TRUE", "isfalse": "IS FALSE",
          "isnottrue": "IS NOT TRUE", "isnotfalse": "IS NOT FALSE", "isunknown": "IS UNKNOWN",
          "isnotunknown": "IS NOT UNKNOWN"}


class R:
    """Renderer state: fresh aliases."""

    def __init__(self):
        self.k = 0

    def alias(self, p="s"):
        self.k += 1
        return f"{p}{self.k}"


def expr_sql(e, colref, outer_ref, rs):
    """colref(i) -> SQL of column i of the current row; outer_ref(i) likewise for the enclosing block."""
    op = e["op"]
    X = lambda x: expr_sql(x, colref, outer_ref, rs)
    if op == "col":
        return colref(e["i"])
    if op == "outer":
        return outer_ref(e["i"])
    if op == "lit":
        return lit_sql(e["v"], e.get("t"))
    if op == "param":
        # C41: a placeholder; "ph" = its SQL text ($1 / $name, possibly wrapped in a CAST giving the type)
        return e["ph"]
    if op == "bin":
        return f"({X(e['l'])} {BINOPS[e['f']]} {X(e['r'])})"
    if op == "un":
        f = e["f"]
        if f == "not":
            return f"(NOT {X(e['e'])})"
        if f == "neg":
            return f"(- {X(e['e'])})"
        if f == "abs":
            return f"abs({X(e['e'])})"
        return f"({X(e['e'])} {UNPOST[f]})"
    if op == "in":
        return f"({X(e['e'])} {'NOT ' if e['neg'] else ''}IN ({', '.join(X(x) for x in e['list'])}))"
    if op == "between":
        return f"({X(e['e'])} {'NOT ' if e['neg'] else ''}BETWEEN {X(e['lo'])} AND {X(e['hi'])})"
    if op == "case":
        w = " ".join(f"WHEN {X(c)} THEN {X(t)}" for c, t in e["whens"])
        return f"(CASE {w} ELSE {X(e['else'])} END)"
    if op == "coalesce":
        return f"coalesce({', '.join(X(x) for x in e['args'])})"
    if op == "nullif":
        return f"nullif({X(e['l'])}, {X(e['r'])})"
    # subqueries: inside the subquery, "outer" refers to the current row of *this* block
    if op == "insub":
        sub, _ = plan_sql(e["sub"], rs, colref)
        return f"({X(e['e'])} {'NOT ' if e['neg'] else ''}IN ({sub}))"
    if op == "exists":
        sub, _ = plan_sql(e["sub"], rs, colref)
        return f"({'NOT ' if e['neg'] else ''}EXISTS ({sub}))"
    if op == "scalarsub":
        sub, _ = plan_sql(e["sub"], rs, colref)
        return f"({sub})"
    if op == "quant":       # e <cmp> ANY / ALL (subquery)
        sub, _ = plan_sql(e["sub"], rs, colref)
        return f"({X(e['e'])} {BINOPS[e['f']]} {'ALL' if e['all'] else 'ANY'} ({sub}))"
    raise ValueError(op)


def width(p, schemas):
    op = p["op"]
    if op == "scan":
        return len(schemas[p["t"] - 1])
    if op in ("filter", "distinct", "sort", "limit"):
        return width(p["src"], schemas)
    if op == "project":
        return len(p["es"])
    if op == "join":
        return p["lw"] if p["jt"] in ("semi", "anti") else p["lw"] + p["rw"]
    if op == "agg":
        return len(p["keys"]) + len(p["aggs"])
    if op == "setop":
        return width(p["l"], schemas)
    if op == "window":
        return width(p["src"], schemas) + 1
    if op in ("distincton", "pack"):
        return width(p["src"], schemas)
    if op == "lateral":
        return p["lw"] + p["rw"]
    if op == "aggsets":
        return len(p["keys"]) + len(p["aggs"])
    if op == "ufilter":
        return len(schemas[p["t"] - 1])
    raise ValueError(op)


_SCHEMAS = None


def plan_sql(p, rs, outer_ref):
    """SQL text of a query for plan p; returns (sql, cols).  Every node gives its output columns
    names unique to that node (n<k>c<i>), so decorrelation / pull-up in the engine never meets two
    different columns with one name (the engine rejects such plans as ambiguous)."""
    op = p["op"]
    me = rs.alias("n")
    out = lambda i: f"{me}c{i}"
    if op == "scan":
        w = len(_SCHEMAS[p["t"] - 1])
        return ("SELECT " + ", ".join(f"c{i} AS {out(i)}" for i in range(1, w + 1)) + f" FROM t{p['t']}",
                [out(i) for i in range(1, w + 1)])

    def child(q, alias):
        sql, cols = plan_sql(q, rs, outer_ref)
        return f"({sql}) AS {alias}", (lambda i: f"{alias}.{cols[i-1]}"), cols

    if op == "filter" and p.get("having") and p["src"]["op"] == "agg":
        # the filter is written as the HAVING clause of the aggregate query below it
        src = p["src"]
        a, g = rs.alias("s"), rs.alias("g")
        frm, ref, cols = child(src["src"], a)
        nk = len(src["keys"])
        inner = [f"{expr_sql(k, ref, outer_ref, rs)} AS {g}k{j+1}" for j, k in enumerate(src["keys"])]
        inner += [f"{expr_sql(ag['e'], ref, outer_ref, rs)} AS {g}x{j+1}" for j, ag in enumerate(src["aggs"])]
        terms = [f"{g}.{g}k{j+1}" for j in range(nk)]
        for j, ag in enumerate(src["aggs"]):
            d = "DISTINCT " if ag["distinct"] else ""
            terms.append("count(*)" if ag["f"] == "countstar" else f"{ag['f']}({d}{g}.{g}x{j+1})")
        outs = [f"{t} AS {out(j+1)}" for j, t in enumerate(terms)]
        sql = f"SELECT {', '.join(outs)} FROM (SELECT {', '.join(inner)} FROM {frm}) AS {g}"
        if nk:
            sql += " GROUP BY " + ", ".join(terms[:nk])
        sql += " HAVING " + expr_sql(p["p"], lambda i: terms[i - 1], outer_ref, rs)
        return sql, [out(j + 1) for j in range(len(terms))]
    if op == "filter":
        a = rs.alias("s")
        frm, ref, cols = child(p["src"], a)
        pred = expr_sql(p["p"], ref, outer_ref, rs)
        sel = ", ".join(f"{ref(i+1)} AS {out(i+1)}" for i in range(len(cols)))
        return f"SELECT {sel} FROM {frm} WHERE {pred}", [out(i + 1) for i in range(len(cols))]
    if op == "project":
        a = rs.alias("s")
        frm, ref, cols = child(p["src"], a)
        sel = ", ".join(f"{expr_sql(e, ref, outer_ref, rs)} AS {out(j+1)}" for j, e in enumerate(p["es"]))
        return f"SELECT {sel} FROM {frm}", [out(j + 1) for j in range(len(p["es"]))]
    if op == "join":
        la, ra = rs.alias("l"), rs.alias("r")
        lfrm, lref, lcols = child(p["l"], la)
        rfrm, rref, rcols = child(p["r"], ra)
        lw = len(lcols)
        ref = lambda i: lref(i) if i <= lw else rref(i - lw)
        on = expr_sql(p["on"], ref, outer_ref, rs)
        jt = {"inner": "INNER JOIN", "left": "LEFT JOIN", "right": "RIGHT JOIN", "full": "FULL JOIN",
              "semi": "LEFT SEMI JOIN", "anti": "LEFT ANTI JOIN"}[p["jt"]]
        n = lw if p["jt"] in ("semi", "anti") else lw + len(rcols)
        sel = ", ".join(f"{ref(i)} AS {out(i)}" for i in range(1, n + 1))
        return f"SELECT {sel} FROM {lfrm} {jt} {rfrm} ON {on}", [out(i) for i in range(1, n + 1)]
    if op == "agg":
        a, g = rs.alias("s"), rs.alias("g")
        frm, ref, cols = child(p["src"], a)
        nk = len(p["keys"])
        inner = [f"{expr_sql(k, ref, outer_ref, rs)} AS {g}k{j+1}" for j, k in enumerate(p["keys"])]
        inner += [f"{expr_sql(ag['e'], ref, outer_ref, rs)} AS {g}x{j+1}" for j, ag in enumerate(p["aggs"])]
        outs = [f"{g}.{g}k{j+1} AS {out(j+1)}" for j in range(nk)]
        for j, ag in enumerate(p["aggs"]):
            f = ag["f"]
            d = "DISTINCT " if ag["distinct"] else ""
            call = "count(*)" if f == "countstar" else f"{f}({d}{g}.{g}x{j+1})"
            outs.append(f"{call} AS {out(nk+j+1)}")
        sql = f"SELECT {', '.join(outs)} FROM (SELECT {', '.join(inner)} FROM {frm}) AS {g}"
        if nk:
            sql += " GROUP BY " + ", ".join(f"{g}.{g}k{j+1}" for j in range(nk))
        return sql, [out(j + 1) for j in range(nk + len(p["aggs"]))]
    if op == "distinct":
        a = rs.alias("s")
        frm, ref, cols = child(p["src"], a)
        sel = ", ".join(f"{ref(i+1)} AS {out(i+1)}" for i in range(len(cols)))
        return f"SELECT DISTINCT {sel} FROM {frm}", [out(i + 1) for i in range(len(cols))]
    if op == "setop":
        kw = {"union": "UNION", "intersect": "INTERSECT", "except": "EXCEPT"}[p["f"]] + (" ALL" if p["all"] else "")
        a = rs.alias("s")
        lsql, lcols = plan_sql(p["l"], rs, outer_ref)
        rsql, rcols = plan_sql(p["r"], rs, outer_ref)
        sel = ", ".join(f"{a}.{c} AS {out(i+1)}" for i, c in enumerate(lcols))
        return f"SELECT {sel} FROM (({lsql}) {kw} ({rsql})) AS {a}", [out(i + 1) for i in range(len(lcols))]
    if op == "sort":
        a = rs.alias("s")
        frm, ref, cols = child(p["src"], a)
        sel = ", ".join(f"{ref(i+1)} AS {out(i+1)}" for i in range(len(cols)))
        keys = ", ".join(f"{ref(k['i'])} {'ASC' if k['asc'] else 'DESC'} NULLS {'FIRST' if k['nf'] else 'LAST'}" for k in p["keys"])
        return f"SELECT {sel} FROM {frm} ORDER BY {keys}", [out(i + 1) for i in range(len(cols))]
    if op == "limit":
        src = p["src"]
        if src["op"] == "sort":
            base, cols = plan_sql(src, rs, outer_ref)
        else:
            a = rs.alias("s")
            frm, ref, cs = child(src, a)
            sel = ", ".join(f"{ref(i+1)} AS {out(i+1)}" for i in range(len(cs)))
            base, cols = f"SELECT {sel} FROM {frm}", [out(i + 1) for i in range(len(cs))]
        if p["fetch"] >= 0:
            base += f" LIMIT {p.get('fetch_sql', p['fetch'])}"      # fetch_sql / skip_sql: placeholder text (C41)
        if p["skip"] > 0 or "skip_sql" in p:
            base += f" OFFSET {p.get('skip_sql', p['skip'])}"
        return base, cols
    if op == "window":
        a = rs.alias("s")
        frm, ref, cols = child(p["src"], a)
        n = len(cols)
        sel = [f"{ref(i+1)} AS {out(i+1)}" for i in range(n)]
        f = p["f"]
        call = {"rank": "rank()", "dense_rank": "dense_rank()", "row_number": "row_number()", "countstar": "count(*)"}.get(f) or f"{f}({ref(p['arg'])})"
        over = []
        if p["part"]:
            over.append("PARTITION BY " + ", ".join(ref(i) for i in p["part"]))
        if p["order"]:
            over.append("ORDER BY " + ", ".join(f"{ref(k['i'])} {'ASC' if k['asc'] else 'DESC'} NULLS {'FIRST' if k['nf'] else 'LAST'}" for k in p["order"]))
        sel.append(f"{call} OVER ({' '.join(over)}) AS {out(n+1)}")
        return f"SELECT {', '.join(sel)} FROM {frm}", [out(i + 1) for i in range(n + 1)]
    if op == "lateral":
        la, ra = rs.alias("l"), rs.alias("r")
        lfrm, lref, lcols = child(p["l"], la)
        rsql, rcols = plan_sql(p["r"], rs, lref)          # the right side sees the current left row as its outer row
        lw = len(lcols)
        ref = lambda i: lref(i) if i <= lw else f"{ra}.{rcols[i - lw - 1]}"
        n = lw + len(rcols)
        sel = ", ".join(f"{ref(i)} AS {out(i)}" for i in range(1, n + 1))
        jn = f"CROSS JOIN LATERAL ({rsql}) AS {ra}" if p["jt"] == "inner" else f"LEFT JOIN LATERAL ({rsql}) AS {ra} ON TRUE"
        return f"SELECT {sel} FROM {lfrm} {jn}", [out(i) for i in range(1, n + 1)]
    if op == "aggsets":
        a, g = rs.alias("s"), rs.alias("g")
        frm, ref, cols = child(p["src"], a)
        nk = len(p["keys"])
        inner = [f"{expr_sql(k, ref, outer_ref, rs)} AS {g}k{j+1}" for j, k in enumerate(p["keys"])]
        inner += [f"{expr_sql(ag['e'], ref, outer_ref, rs)} AS {g}x{j+1}" for j, ag in enumerate(p["aggs"])]
        outs = [f"{g}.{g}k{j+1} AS {out(j+1)}" for j in range(nk)]
        for j, ag in enumerate(p["aggs"]):
            f = ag["f"]
            d = "DISTINCT " if ag["distinct"] else ""
            outs.append(("count(*)" if f == "countstar" else f"{f}({d}{g}.{g}x{j+1})") + f" AS {out(nk+j+1)}")
        sets = ", ".join("(" + ", ".join(f"{g}.{g}k{j}" for j in sorted(st)) + ")" for st in p["sets"])
        sql = f"SELECT {', '.join(outs)} FROM (SELECT {', '.join(inner)} FROM {frm}) AS {g} GROUP BY GROUPING SETS ({sets})"
        return sql, [out(j + 1) for j in range(nk + len(p["aggs"]))]
    if op == "distincton":
        a = rs.alias("s")
        frm, ref, cols = child(p["src"], a)
        n = len(cols)
        sel = ", ".join(f"{ref(i+1)} AS {out(i+1)}" for i in range(n))
        on = ", ".join(ref(i + 1) for i in range(p["n"]))
        order = ", ".join(f"{ref(i+1)} ASC NULLS LAST" for i in range(n))
        return f"SELECT DISTINCT ON ({on}) {sel} FROM {frm} ORDER BY {order}", [out(i + 1) for i in range(n)]
    if op == "pack":
        # one struct column; parents read its fields:  alias.<me>s['f<i>']
        a = rs.alias("s")
        frm, ref, cols = child(p["src"], a)
        flds = ", ".join(f"'f{i+1}', {ref(i+1)}" for i in range(len(cols)))
        return f"SELECT named_struct({flds}) AS {me}s FROM {frm}", [f"{me}s['f{i+1}']" for i in range(len(cols))]
    if op == "ufilter":
        # every branch has the same select list and aliases (the shape the unions-to-filter rewrite looks for)
        w = len(_SCHEMAS[p["t"] - 1])
        base = "SELECT " + ", ".join(f"c{i} AS {out(i)}" for i in range(1, w + 1)) + f" FROM t{p['t']}"
        cref = lambda i: f"c{i}"
        kw = " UNION ALL " if p["all"] else " UNION "
        if p.get("wrap"):
            # the filter sits above the aliasing projection, in every branch under the same alias
            sel = ", ".join(f"u{me}.{out(i)} AS {out(i)}" for i in range(1, w + 1))
            aref = lambda i: f"u{me}.{out(i)}"
            return kw.join(f"SELECT {sel} FROM ({base}) AS u{me} WHERE {expr_sql(pr, aref, outer_ref, rs)}" for pr in p["ps"]), [out(i) for i in range(1, w + 1)]
        return kw.join(f"{base} WHERE {expr_sql(pr, cref, outer_ref, rs)}" for pr in p["ps"]), [out(i) for i in range(1, w + 1)]
    raise ValueError(op)


def render(case):
    global _SCHEMAS
    _SCHEMAS = case["schemas"]
    rs = R()

    def no_outer(i):
        raise ValueError("outer reference at top level")
    case["sql"], case["out_cols"] = plan_sql(case["plan"], rs, no_outer)
    case["tables"] = [{"name": f"t{t+1}",
                       "cols": [{"name": f"c{i+1}", "kind": k} for i, k in enumerate(sch)],
                       "rows": case["db"][t]} for t, sch in enumerate(case["schemas"])]
    return case


# ----------------------------------------------------------------------------- comparison

def vkey(v):
    return (v["k"], v["v"])


def rkey(row):
    return tuple(vkey(v) for v in row)


def bag(rows):
    d = {}
    for r in rows:
        d[rkey(r)] = d.get(rkey(r), 0) + 1
    return d


def sub_bag(a, b):
    return all(b.get(k, 0) >= n for k, n in a.items())


def key_lt(a, b, asc, nf):
    an, bn = a["k"] == "n", b["k"] == "n"
    if an and bn:
        return False
    if an:
        return nf
    if bn:
        return not nf
    return a["v"] < b["v"] if asc else a["v"] > b["v"]


def row_before(r1, r2, keys):
    for k in keys:
        a, b = r1[k["i"] - 1], r2[k["i"] - 1]
        if key_lt(a, b, k["asc"], k["nf"]):
            return True
        if key_lt(b, a, k["asc"], k["nf"]):
            return False
    return False


KNOWN_SETOP_ALL = "setop-all-evaluated-as-semi-anti-join"


def compare(case, got_rows, got_err):
    """Return None if the engine's answer is allowed by the reference, else a message.

    A message that starts with "KNOWN[<key>]" identifies a recorded engine defect precisely (see
    known_findings.json): the engine's answer differs from the reference but equals the reference
    evaluated with INTERSECT ALL / EXCEPT ALL read as semi / anti joins (Rel.AltPlan)."""
    msg = _compare(case, case["expect"], got_rows, got_err)
    alt = case.get("expect_alt")
    if msg and alt is not None and alt != case["expect"] and got_err is None:
        if _compare(case, alt, got_rows, got_err) is None:
            return f"KNOWN[{KNOWN_SETOP_ALL}] INTERSECT ALL / EXCEPT ALL lose multiplicities (engine evaluates them as semi/anti joins): {msg}"
    return msg


def _compare(case, exp, got_rows, got_err):
    if exp["err"]:
        return None  # reference evaluation errs (e.g. division by zero): engine may fail or succeed
    if got_err is not None:
        return f"engine failed but the reference evaluates without error: {got_err[:300]}"
    want = exp["rows"]
    mode = case["mode"]
    plan = case["plan"]
    if mode == "bag":
        if bag(got_rows) != bag(want):
            return f"result bag differs: engine {len(got_rows)} rows, reference {len(want)} rows"
        return None
    if mode == "ordered":
        if bag(got_rows) != bag(want):
            return "result bag differs (ORDER BY query)"
        keys = plan["keys"]
        for i in range(len(got_rows) - 1):
            if row_before(got_rows[i + 1], got_rows[i], keys):
                return f"rows {i} and {i+1} are out of order for {keys}"
        return None
    if mode == "topk":
        if len(got_rows) != len(want):
            return f"LIMIT over ORDER BY: engine {len(got_rows)} rows, reference {len(want)}"
        keys = plan["src"]["keys"]
        kk = lambda r: tuple(vkey(r[k["i"] - 1]) for k in keys)
        if [kk(r) for r in got_rows] != [kk(r) for r in want]:
            return "LIMIT over ORDER BY: key sequence differs from the reference"
        if not sub_bag(bag(got_rows), bag(case["universe"])):
            return "LIMIT over ORDER BY: a returned row is not a row of the input"
        return None
    if mode == "subset":
        if len(got_rows) != len(want):
            return f"LIMIT: engine {len(got_rows)} rows, reference {len(want)}"
        if not sub_bag(bag(got_rows), bag(case["universe"])):
            return "LIMIT: a returned row is not a row of the input"
        return None
    raise ValueError(mode)


def features_of(plan):
    """Set of operator names occurring in a plan (for coverage accounting)."""
    out = set()

    def walk(x):
        if isinstance(x, dict):
            if "op" in x:
                o = x["op"]
                if o == "join":
                    out.add("join:" + x["jt"])
                elif o == "setop":
                    out.add("setop:" + x["f"] + (":all" if x["all"] else ""))
                elif o in ("bin", "un"):
                    out.add(o + ":" + x["f"])
                else:
                    out.add(o)
            if "f" in x and "distinct" in x and "e" in x:
                out.add("agg:" + x["f"] + (":distinct" if x["distinct"] else ""))
            for v in x.values():
                walk(v)
        elif isinstance(x, list):
            for v in x:
                walk(v)
    walk(plan)
    return out
