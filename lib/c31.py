"""C31 — dynamic filters never remove rows that contribute to the result.

(a) TLC model-checks spec/proto/DynFilter.tla (inner <<generation, expr, complete>> under one lock,
    per-filter cache, current() cut into its three lock regions, update()/mark_complete() with the
    broadcast after the lock, 2 writers x 2 readers x 3 updates): every current() returns the
    expression of one published generation, not older than the one visible when the call began;
    the cache is consistent and monotone.  B3: every sequential history of the model is replayed
    on the real DynamicFilterPhysicalExpr (base + filters derived by with_new_children) checking
    current()/snapshot()/evaluate()/snapshot_generation()/wait_update()/wait_complete(); a
    multi-thread stress run applies the NotStale invariant as its oracle to real interleavings.
(b,c) spec/proto/DynPushGen.tla enumerates build/probe tables x every SQL join type and ORDER BY ..
    LIMIT k inputs with the result of the reference semantics (spec/lib/Join.tla, Sort.tla); each
    is executed over Parquet sources (several files/row groups) with dynamic filter pushdown off
    and on, collect-left and partitioned, row-filter pushdown on/off, IN-list and hash-lookup
    variants; results must equal the specification's.  Seeded larger random tables (single, string
    and two-column keys; skewed build ranges) are compared on vs off.
"""
import json, os
from common import *


def df_cfg(nw, nrd, nf, nu, nreads, seq, maxops, view=True, invs="NotStale CacheConsistent InnerConsistent", props="GenMonotone"):
    s = (f"CONSTANTS NW = {nw}  NRD = {nrd}  NF = {nf}  NU = {nu}  NREADS = {nreads}  SEQ = {'TRUE' if seq else 'FALSE'}  MAXOPS = {maxops}\n"
         "SPECIFICATION Spec\n")
    if view:
        s += "VIEW view\n"
    s += f"INVARIANTS {invs}\n"
    if props:
        s += f"PROPERTIES {props}\n"
    return s + "CHECK_DEADLOCK FALSE\n"


def harness(ctx, mode, cases, tag, extra=(), timeout=3000):
    inp, out = ctx.path(f"{tag}.ndjson"), ctx.path(f"{tag}.json")
    write_ndjson(inp, cases)
    run_harness(ctx, "vpool", ["c31", "--mode", mode, "--in", inp, "--out", out] + list(extra), timeout=timeout)
    res = json.load(open(out))
    if res.get("tool_errors"):
        raise ToolError("harness machinery errors: " + "; ".join(map(str, res["tool_errors"][:3])))
    return res


def run(ctx):
    build("vpool")
    if ctx.replay:
        out = ctx.path("res.json")
        run_harness(ctx, "vpool", ["c31", "--replay", os.path.abspath(ctx.replay), "--out", out])
        res = json.load(open(out))
        for v in res["violations"]:
            report_violation(ctx, v)
        write_evidence(ctx, "model_checking", {"states": 1, "transitions": 1, "traces_validated_against_impl": 1, "samples": res.get("samples", [])[:1] or [{"replayed": ctx.replay}]})
        return
    workers = 4 if ctx.quick else 8
    # ---- (a) model checking
    exh = [dict(nw=2, nrd=2, nf=1, nu=3, nreads=1, seq=False, maxops=100), dict(nw=1, nrd=2, nf=2, nu=2, nreads=2, seq=False, maxops=100)] if ctx.quick else \
          [dict(nw=2, nrd=2, nf=2, nu=3, nreads=2, seq=False, maxops=100), dict(nw=2, nrd=3, nf=1, nu=2, nreads=1, seq=False, maxops=100)]
    mc, states, transitions, taken = [], 0, 0, {}
    for i, c in enumerate(exh):
        cfg = ctx.path(f"mc{i}.cfg")
        open(cfg, "w").write(df_cfg(**c))
        r = tlc_must_pass(ctx, "proto/DynFilter", cfg=cfg, workers=workers, coverage=True, tag=f"mc{i}", timeout=3000)
        states += r.distinct
        transitions += r.generated
        mc.append({"constants": c, "distinct_states": r.distinct, "generated": r.generated, "wall_s": round(r.wall, 1)})
        for a, (d, t) in r.action_counts().items():
            taken[a] = taken.get(a, 0) + t
    never = [a for a in ("W1", "W2", "C1", "C2", "Begin", "R1", "R2", "R4") if taken.get(a, 0) == 0]
    if never:
        raise ToolError(f"vacuity: specification actions never taken: {never}")
    # diagnostic (not part of the property): out-of-order broadcasts with two writers
    cfg = ctx.path("watch.cfg")
    open(cfg, "w").write(df_cfg(2, 1, 1, 2, 1, False, 100, invs="WatchInOrder", props=""))
    rw = tlc(ctx, "proto/DynFilter", cfg=cfg, workers=2, tag="watch")
    # ---- (a) B3 histories
    cfg = ctx.path("gen.cfg")
    open(cfg, "w").write(df_cfg(1, 1, 3, 3, 6, True, 5 if ctx.quick else 7, view=False, invs="Emit NotStale CacheConsistent", props=""))
    r = tlc_must_pass(ctx, "proto/DynFilterGen", cfg=cfg, workers=workers, tag="gen", timeout=3000)
    hist = tlc_cases(r.out)
    del r
    if not hist:
        raise ToolError("TLC produced no filter histories")
    if len(hist) > 60000:
        hist = ctx.rng.sample(hist, 60000)
    fa = harness(ctx, "filter", hist, "filter")
    for v in fa["violations"]:
        report_violation(ctx, v)
    # ---- (b,c) end to end
    cfg = ctx.path("push.cfg")
    open(cfg, "w").write("CONSTANTS NPAIRS = %d  NTOPK = %d  MAXROWS = 3\nSPECIFICATION Spec\nINVARIANTS Emit RefSane\nCHECK_DEADLOCK FALSE\n" % ((5, 8) if ctx.quick else (40, 40)))
    r = tlc(ctx, "proto/DynPushGen", cfg=cfg, workers=2, tag="push", mode_args=["-seed", str(ctx.seed)], timeout=1500)
    if not r.ok:
        sys.stderr.write(r.out[-3000:])
        raise ToolError("DynPushGen failed")
    cases = tlc_cases(r.out)
    push_states = r.distinct
    if not cases:
        raise ToolError("TLC produced no join/topk cases")
    e2e = harness(ctx, "e2e", cases, "e2e", extra=["--random", 16 if ctx.quick else 200])
    for v in e2e["violations"]:
        report_violation(ctx, v)
    if e2e["plans_with_dynamic_filter"] == 0 or e2e["dynamic_filter_populated_after_run"] == 0:
        raise ToolError("no executed plan carried a populated dynamic filter: the end-to-end layer is vacuous")
    if len(e2e["per_join_type"]) < 9:
        raise ToolError(f"join type coverage collapsed: {e2e['per_join_type']}")
    write_evidence(ctx, "model_checking", {
        "states": states, "transitions": transitions,
        "traces_validated_against_impl": fa["evaluations"] + e2e["evaluations"],
        "samples": (fa["samples"][:1] + e2e["samples"][:1]) or [hist[0]],
        "exhaustive": True,
        "model_checking_runs": mc,
        "diagnostic_watch_broadcast_out_of_order_in_model": rw.invariant_violated,
        "filter_layer": {"histories_from_tlc": len(hist), "replayed_ok": fa["evaluations"], "current_checks": fa["current_checks"],
                         "stress_runs": fa["stress_runs"], "stress_reads": fa["stress_reads"]},
        "end_to_end": {"tlc_cases": len(cases), "tlc_case_states": push_states, **{k: e2e[k] for k in e2e if k not in ("violations", "samples", "tool_errors")}},
        "rule": "filter case = one sequential behaviour of DynFilter.tla; end-to-end case = (TLC table pair x join type | top-k input | seeded random tables) x knob tuple (partitions, partition mode, row-filter pushdown, IN-list limit, pushdown on/off), distinct = distinct tuples",
    }, assumptions=[
        "lock-region interleavings of current()/update() are explored exhaustively in the model; the real type is driven by sequential histories plus real-thread stress runs with the NotStale oracle (no controlled scheduler hooks in dynamic_filters/mod.rs)",
        "producers update the filter through the original (un-remapped) expression, as the join and TopK operators do",
        "the moment at which a scan reads the filter is left to the runtime (multi-threaded tokio, several files/partitions, batch sizes 2/7/8192); it is not enumerated",
        "larger random tables are checked differentially (pushdown on vs off); TLC-enumerated tables against the TLA+ reference result",
        "mark joins and null-aware anti joins are not expressible in SQL join syntax and are not covered here",
    ])
