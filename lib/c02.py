"""C02 — query results do not depend on execution configuration or parallelism.

spec/sem/ConfigGen.tla: the configuration is a component of the case that the reference semantics does not read
(Result(plan, db, cfg) == EvalPlan(plan, <<>>, db)): one reference result per <plan, database>, whatever the
configuration.  TLC draws seeded candidate rows over the explicit allow-list of semantics-neutral options (Opts) and
assigns each generated case a window of rows; this driver selects the covering array greedily from the candidates
(pairwise; more rows in the thorough tier) and measures the pair coverage of the rows executed.
vsem c02 executes every case under the default configuration and under its rows (table layout: partitions x batch rows;
session options), on several databases, twice in a row, and — for every third row — concurrently (3 copies of the query
and 2 copies of two other queries interleaved on one SessionContext on a multi-thread runtime).
Verdict: every run must be allowed by the one reference result; a disagreement is raised when the run under the
DEFAULT configuration agrees with the reference (so the difference is caused by the configuration / repetition /
interleaving), or when two runs of one session differ from each other."""
import json, collections, itertools
from common import *
import sqlcases, semcases
from c03 import classify

# configuration-dependent engine errors that are documented restrictions, not wrong answers
RESTRICTIONS = ["This feature is not implemented", "not supported"]


def _joins(x, out):
    if isinstance(x, dict):
        if x.get("op") == "join":
            on = x["on"]
            pure_eq = on.get("op") == "bin" and on.get("f") == "=" and on["l"].get("op") == "col" and on["r"].get("op") == "col"
            out.append((x["jt"], not pure_eq))
        for v in x.values():
            _joins(v, out)
    elif isinstance(x, list):
        for v in x:
            _joins(v, out)
    return out


def finding_key(case, cfg, msg, status=None):
    """Narrow keys of genuine engine defects (known_findings.json, property C02)."""
    st = (cfg or {}).get("settings", {})
    joins = _joins(case["plan"], [])
    if st.get("datafusion.optimizer.enable_piecewise_merge_join") == "true" and "entered unreachable code" in (msg or ""):
        return "enable_piecewise_merge_join=true:planner-panics-on-range-predicate-with-literal"
    if "SanityCheckPlan" in (msg or "") and "SortPreservingMergeExec" in msg and "does not satisfy order requirements" in msg \
            and st.get("datafusion.execution.target_partitions") not in (None, "1") and any(jt in ("left", "right") for jt, _ in joins):
        return "sanitycheck-spm-over-swapped-outer-join:target_partitions>1"
    if "No field named __datafusion_extracted" in (msg or "") and "Optimizer rule" in msg:
        return "leaf-expression-extraction-leaves-dangling-column"
    if "SanityCheckPlan" in (msg or "") and "does not satisfy distribution requirements" in msg and st.get("datafusion.optimizer.preserve_file_partitions") == "1" \
            and (cfg or {}).get("source") in ("csv", "parquet"):
        return "preserve_file_partitions=1:sanitycheck-distribution-requirements"
    if "SanityCheckPlan" in (msg or "") and "SortPreservingMergeExec" in msg and "AggregateExec: mode=Partial" in msg and (cfg or {}).get("sorted") \
            and st.get("datafusion.optimizer.repartition_aggregations") == "false":
        return "sorted-source+repartition_aggregations=false:sanitycheck-spm-over-partial-aggregate"
    if st.get("datafusion.optimizer.enable_unions_to_filter") == "true" and "unions_to_filter' failed" in (msg or "") and "No field named" in (msg or ""):
        return "unions_to_filter-filter-above-aliasing-projection"
    if st.get("datafusion.optimizer.prefer_hash_join") == "false":
        if "declared as non-nullable but contains null values" in (msg or "") and any(jt in ("left", "right", "full") and flt for jt, flt in joins):
            return "prefer_hash_join=false:smj-outer-join-with-filter-non-nullable-field"
        if status == "diff" and any(jt == "full" and flt for jt, flt in joins):
            return "prefer_hash_join=false:smj-full-join-null-filter-treated-as-match"
    return None


def select_rows(cover, maxcfg):
    """Greedy pairwise covering array: row 1 = default configuration, then the candidate adding most uncovered pairs."""
    cands = cover["cands"]
    nopt = len(cover["opts"])
    idx = list(itertools.combinations(range(nopt), 2))
    pairs = lambda row: {(i, j, row[i], row[j]) for i, j in idx}
    rows, covered = [cands[0]], pairs(cands[0])
    pool = [(c, pairs(c)) for c in cands[1:]]
    while len(rows) < maxcfg and pool:
        k = max(range(len(pool)), key=lambda t: len(pool[t][1] - covered))
        c, pc = pool.pop(k)
        rows.append(c)
        covered |= pc
    cover["rows"] = rows
    return rows


def make_configs(cover, entries):
    known = {e["key"] for e in entries}
    opts = cover["opts"]
    missing = [o["k"] for o in opts if not o["k"].startswith("layout.") and o["k"] not in known]
    cfgs = []
    for ri, row in enumerate(cover["rows"]):
        c = {"id": ri + 1, "partitions": 1, "batch_rows": 0, "source": "mem", "sorted": False, "settings": {}, "concurrent": ri % 3 == 0}
        for o, vi in zip(opts, row):
            v = o["vs"][vi - 1]
            if o["k"] == "layout.partitions":
                c["partitions"] = int(v)
            elif o["k"] == "layout.batch_rows":
                c["batch_rows"] = int(v)
            elif o["k"] == "layout.source":
                c["source"] = v
            elif o["k"] == "layout.sorted":
                c["sorted"] = v == "true"
            elif o["k"] not in missing:
                c["settings"][o["k"]] = v
        cfgs.append(c)
    return cfgs, missing


def pair_coverage(cover, used_rows):
    opts = cover["opts"]
    total = sum(len(a["vs"]) * len(b["vs"]) for a, b in itertools.combinations(opts, 2))
    seen = set()
    for r in used_rows:
        row = cover["rows"][r - 1]
        for i, j in itertools.combinations(range(len(opts)), 2):
            seen.add((i, j, row[i], row[j]))
    return len(seen), total


def run(ctx):
    build("vsem")
    summary, _ = run_harness(ctx, "vsem", ["c02-keys"])
    entries = summary["entries"]
    if ctx.replay:
        rp = json.load(open(ctx.replay))
        cases = [rp["case"]]
        cover = None
    else:
        n, percase, maxcfg, ncand, ndb = (80, 6, 36, 400, 1) if ctx.quick else (500, 40, 120, 1200, 2)
        cs, r = semcases.generate(ctx, n, ctx.seed, depth=2 if ctx.quick else 3, edepth=2, maxrows=4, ndb=ndb, tag="cfggen",
                                  workers=4 if ctx.quick else 8, module="sem/ConfigGen", emit="EmitC", init="CInit",
                                  extra_consts=f"  CSEED = {ctx.seed}  NCAND = {ncand}  MAXCFG = {maxcfg}  PERCASE = {percase}\n")
        cover = next(c for c in cs if c["id"] == 0)
        cases = [c for c in cs if c["id"] != 0]
        select_rows(cover, maxcfg)
        configs, missing = make_configs(cover, entries)
        default = {"id": 0, "partitions": 1, "batch_rows": 0, "source": "mem", "sorted": False, "settings": {}, "concurrent": True}
        plain = [c for c in cases if c["mode"] in ("bag", "ordered")]
        for i, c in enumerate(cases):
            c["cfg_objs"] = [default] + [configs[k - 1] for k in c["cfgs"]]
            c["others"] = [plain[(i + 1) % len(plain)]["sql"], plain[(i + 7) % len(plain)]["sql"]] if len(plain) > 8 else []
    if not ctx.replay:
        # pinned cases: recorded witnesses that must stay observable (each brings its own pair of configurations; cfg 0 = its baseline)
        import glob
        for f in sorted(glob.glob(os.path.join(SPEC, "sem", "pinned", "c02-*.json"))):
            cases.append(json.load(open(f)))
    inp, out = ctx.path("c02.in.ndjson"), ctx.path("c02.out.ndjson")
    write_ndjson(inp, [dict(semcases.harness_case(c), cfgs=c["cfg_objs"], others=c.get("others", [])) for c in cases])
    hsum, _ = run_harness(ctx, "vsem", ["c02", "--in", inp, "--out", out, "--threads", 4 if ctx.quick else 8], timeout=6000)
    res = {r["id"]: r for r in read_ndjson(out)}
    st = collections.Counter()
    phys_ops = collections.Counter()
    srcs = collections.Counter()
    nontrivial = set()
    samples = []
    used_rows = set()
    raised = 0
    for c in cases:
        r = res[c["id"]]
        if "panic" in r:
            report_violation(ctx, {"kind": "panic", "case": c, "oracle": "engine panicked: " + str(r["panic"])[:500]})
            continue
        views = semcases.views(c)
        cfg_by_id = {k["id"]: k for k in c["cfg_objs"]}
        base = {}                                   # db -> status under the default configuration
        for run_ in r["runs"]:
            if "setup_err" in run_:
                raise ToolError(f"c02: configuration {run_['cfg']} rejected: {run_['setup_err']}")
            if run_["cfg"] == 0:
                base[run_["db"]] = classify(run_["r1"], views[run_["db"]])
        def check(kind, cfg_id, d, rec, extra=None):
            nonlocal raised
            s_, m_ = classify(rec, views[d])
            if s_ == "error" and "No such file or directory" in (m_ or ""):
                # the table files of this run disappeared (another run of this check wiped work/C02): machinery, not a verdict
                raise ToolError("C02: table files under work/C02 vanished during the run (concurrent run of the same check?)")
            st[f"{kind}:{s_}"] += 1
            b_ = base.get(d, ("notrun", None))[0]
            bad = None
            if s_ == "diff" and b_ == "ok":
                bad = f"{kind} under configuration {cfg_id}: {m_}; the first run under the default configuration agrees with the reference"
            elif s_ == "error" and b_ == "ok" and not any(x in m_ for x in RESTRICTIONS):
                bad = f"{kind} under configuration {cfg_id} fails ({m_[:300]}); the default configuration executes and agrees with the reference"
            elif s_ == "diff":
                st["differs_like_default_configuration"] += 1
            if bad and raised < 15:
                key = finding_key(c, cfg_by_id.get(cfg_id), m_ or "", s_) or semcases.known_key(m_)
                raised += 0 if key else 1
                report_violation(ctx, {"case": {k: v for k, v in c.items() if k != "cfg_objs"} | {"cfg_objs": [cfg_by_id[0], cfg_by_id[cfg_id]] if cfg_id else [cfg_by_id[0]]},
                                       "config": cfg_by_id.get(cfg_id), "db_index": d, "kind": kind, "engine": rec, "reference": views[d]["expect"],
                                       "oracle": bad, "extra": extra}, key=key)
            if s_ == "ok" and views[d]["expect"]["rows"]:
                nontrivial.add((c["sql"], cfg_id))
        for run_ in r["runs"]:
            d = run_["db"]
            used_rows.add(run_["cfg"])
            cf = cfg_by_id.get(run_["cfg"], {})
            srcs[f"{cf.get('source', 'mem')}{'+sorted' if cf.get('sorted') else ''}"] += 1
            for o in run_.get("ops") or []:
                phys_ops[o] += 1
            check("run1", run_["cfg"], d, run_["r1"])
            if not run_.get("r2_identical"):
                st["second_run_not_identical"] += 1
                check("run2", run_["cfg"], d, run_["r2"])
            else:
                st["run2:identical_to_run1"] += 1
        for cc in r["conc"]:
            for rec in cc["main"]:
                check("concurrent", cc["cfg"], 0, rec)
            for od in cc["other_diff"]:
                if any("ivide by zero" in str((od.get(k) or {}).get("err", "")) for k in ("sequential", "concurrent")):
                    # whether a lost CASE guard shows depends on the batch composition (known C03 finding simplify-boolean-case...): not a verdict here
                    st["concurrent_other_query_evaluation_error"] += 1
                    continue
                st["concurrent_other_query_differs"] += 1
                if raised < 15:
                    raised += 1
                    report_violation(ctx, {"case": c, "config": cfg_by_id.get(cc["cfg"]), "kind": "concurrent-other",
                                           "oracle": "a query run concurrently with other queries in one session returns a different bag than when run alone in the same session",
                                           "detail": od})
        if len(samples) < 2 and views[0]["expect"]["rows"] and not views[0]["expect"]["err"]:
            samples.append({"sql": c["sql"], "db": views[0]["db"], "expect": views[0]["expect"], "configs": [k["id"] for k in c["cfg_objs"]]})
    # binding demonstration on every run: an accepted run with one row dropped must be rejected by the oracle
    tried = detected = 0
    for c in cases:
        r = res[c["id"]]
        views = semcases.views(c)
        if "runs" not in r or c["mode"] not in ("bag", "ordered") or views[0]["expect"]["err"]:
            continue
        for run_ in r["runs"]:
            if run_.get("db") == 0 and run_["cfg"] != 0 and run_["r1"].get("rows"):
                tried += 1
                s_, _ = classify({"rows": run_["r1"]["rows"][1:]}, views[0])
                detected += 1 if s_ == "diff" else 0
                break
        if tried >= 25:
            break
    if not ctx.replay and (tried == 0 or tried != detected):
        raise ToolError(f"C02 selftest: {detected} of {tried} corrupted results rejected")
    if not ctx.replay:
        need_ops = ["HashJoinExec:CollectLeft", "HashJoinExec:Partitioned", "SortMergeJoinExec", "NestedLoopJoinExec",
                    "AggregateExec:Partial", "AggregateExec:FinalPartitioned", "AggregateExec:Final", "AggregateExec:Single",
                    "SortExec", "SortExec:TopK", "SortPreservingMergeExec", "RepartitionExec", "CoalescePartitionsExec", "UnionExec",
                    "GlobalLimitExec", "FilterExec", "ProjectionExec", "DataSourceExec"]
        missing_ops = [o for o in need_ops if phys_ops[o] == 0]
        if not any(k in phys_ops for k in ("WindowAggExec", "BoundedWindowAggExec")):
            missing_ops.append("WindowAggExec|BoundedWindowAggExec")
        need_src = ["mem", "parquet", "csv", "mem+sorted", "parquet+sorted"]
        missing_src = [x for x in need_src if srcs[x] == 0]
        if missing_ops or missing_src:
            raise ToolError(f"C02: physical operators / table sources never exercised in this run: {missing_ops} {missing_src}")
    cov = {"physical_operators_seen": dict(sorted(phys_ops.items())), "table_sources": dict(srcs), "selftest": {"corrupted_observations": tried, "rejected_by_oracle": detected}, "evaluations": hsum["executions"], "distinct_nontrivial": len(nontrivial),
           "rule": "evaluation = one execution of a case's SQL under one configuration on one database (first run / immediate second run / one of 3 "
                   "concurrent copies); non-trivial = distinct <query, configuration> whose result is non-empty and equals the non-error reference result",
           "samples": samples, "cases": len(cases), "status_counts": dict(sorted(st.items()))}
    if cover:
        used_rows = {r for r in used_rows if 0 < r <= len(cover["rows"])}
        pc, pt = pair_coverage(cover, used_rows)
        on_list = [o["k"] for o in cover["opts"]]
        cov.update({"configurations": len(cover["rows"]), "configurations_used": len(used_rows),
                    "pairs_total": pt, "pairs_covered_by_used_rows": pc, "tlc_pairs_total": cover["pairs_total"], "candidate_rows_from_tlc": len(cover["cands"]),
                    "allow_list": {o["k"]: o["vs"] for o in cover["opts"]}, "allow_list_keys_missing_in_engine": missing,
                    "candidate_keys": len(entries),
                    "execution_and_optimizer_keys_not_on_allow_list": sorted(e["key"] for e in entries if e["key"] not in on_list and
                                                                             (e["key"].startswith("datafusion.execution.") and ".parquet." not in e["key"] or e["key"].startswith("datafusion.optimizer."))),
                    "sample_configuration": configs[1] if len(configs) > 1 else None})
        if pc < 0.9 * pt and ctx.quick is False:
            raise ToolError("covering array covers < 90% of the value pairs")
    write_evidence(ctx, "exploration", cov, assumptions=[
        "allow-list of semantics-neutral options is explicit in spec/sem/ConfigGen.tla (Opts); options that change SQL semantics (enable_ansi_mode, "
        "default_null_ordering, dialect, parse_float_as_decimal, skip_physical_aggregate_schema_check, skip_failed_rules) and file-format options are excluded",
        "thread schedules above the operator protocols are sampled (tokio multi-thread runtime), not enumerated",
        "a disagreement with the reference that the default configuration shows as well is C01's subject and only counted here"])
