"""C13 — group key interning numbers distinct keys densely and consistently.

1. TLC model-checks spec/adt/GroupValues.tla (keys sequence; Intern / EmitAll / EmitFirst(n) / ClearShrink / Len)
   exhaustively on a small scope (invariants: ids dense, equal keys <=> equal ids, unseen keys numbered upward
   from the previous count, emitted keys distinct) and prints every complete history with the expected result of
   every step; larger scopes (3 values + NULL, 2 columns, 6 operations) are sampled with TLC simulation.
2. B3: `vadt c13` replays each history on every GroupValues implementation the public API can build (see
   harness/vadt/src/c13.rs: ~490 schema x constructor targets) and compares ids, len()/is_empty() and the emitted
   arrays after every operation.
"""
import json, os
from common import *
from adtutil import action_counts, cfg_text

EXH = dict(NCOL=1, KV=2, MAXB=2, MAXOPS=3, NB=0, MAXKEYS=3)
EXH_T = dict(NCOL=1, KV=2, MAXB=2, MAXOPS=4, NB=0, MAXKEYS=3)
SIMS = [dict(NCOL=1, KV=3, MAXB=3, MAXOPS=6, NB=3, MAXKEYS=6), dict(NCOL=1, KV=1, MAXB=3, MAXOPS=6, NB=3, MAXKEYS=2),
        dict(NCOL=2, KV=2, MAXB=3, MAXOPS=6, NB=3, MAXKEYS=6), dict(NCOL=2, KV=1, MAXB=3, MAXOPS=6, NB=3, MAXKEYS=4)]
SIMS_T = SIMS + [dict(NCOL=1, KV=4, MAXB=4, MAXOPS=9, NB=3, MAXKEYS=8), dict(NCOL=2, KV=3, MAXB=4, MAXOPS=9, NB=3, MAXKEYS=9)]

I1 = dict(op="intern", arg=0, out=[], pre=0)
KNOWN = [
    # (key, target, raw history)
    ("GroupValuesColumn: intern after emit(All) without clear_shrink", "New[Int32?, Utf8?](col)",
     dict(ncol=2, ops=[dict(I1, batch=[[1, 1]], ids=[0], len=1), dict(op="emit_all", arg=0, batch=[], ids=[], out=[[1, 1]], len=0, pre=1),
                       dict(I1, batch=[[1, 1]], ids=[0], len=1)])),
    ("GroupValuesPrimitive: clear_shrink without a preceding emit(All) keeps the NULL group", "New[Int32?](col)",
     dict(ncol=1, ops=[dict(I1, batch=[[0], [1]], ids=[0, 1], len=2), dict(op="clear", arg=0, batch=[], ids=[], out=[], len=0, pre=2),
                       dict(I1, batch=[[0]], ids=[0], len=1)])),
    ("GroupValuesBytes/GroupValuesBytesView: clear_shrink without a preceding emit(All) keeps the group count", "New[Utf8?](col)",
     dict(ncol=1, ops=[dict(I1, batch=[[1]], ids=[0], len=1), dict(op="clear", arg=0, batch=[], ids=[], out=[], len=0, pre=1)])),
    ("GroupValuesBytes/GroupValuesBytesView: clear_shrink without a preceding emit(All) keeps the group count", "New[Utf8View?](col)",
     dict(ncol=1, ops=[dict(I1, batch=[[1]], ids=[0], len=1), dict(op="clear", arg=0, batch=[], ids=[], out=[], len=0, pre=1)])),
]


def harness_all(ctx, cases_path, extra=()):
    """Run the replay; a process abort inside a history (non-unwinding panic / UB check in the store) is a
    violation of that history, and the replay continues after it."""
    start, total, aborts = 0, None, 0
    merged = None
    while True:
        prog = ctx.path("progress.json")
        if os.path.exists(prog):
            os.remove(prog)
        summary, p = run_harness(ctx, "vadt", ["c13", "--in", cases_path, "--out", ctx.path("res.json"), "--progress", prog,
                                               "--start", start] + list(extra), timeout=3000, check=False)
        if p.returncode == 0:
            res = json.load(open(ctx.path("res.json")))
            if merged:
                for k in ("evaluations", "ops", "emitted_rows", "violations_total"):
                    res[k] += merged[k]
                res["violations"] = merged["violations"] + res["violations"]
            res["process_aborts"] = aborts
            return res
        if p.returncode > 0 or not os.path.exists(prog) or aborts >= 5:
            sys.stderr.write(p.stderr[-4000:])
            raise ToolError(f"harness vadt c13 exited {p.returncode}")
        # killed by a signal while executing the history recorded in the progress file
        aborts += 1
        last = json.loads(open(prog).read().strip())
        last["case"] = read_ndjson(cases_path)[last["case_index"]]
        last["oracle"] = f"the process aborted (signal {-p.returncode}) inside the group values store while replaying this history: " + p.stderr[-300:]
        report_violation(ctx, last)
        start = last["case_index"] + 1
        merged = merged or dict(evaluations=0, ops=0, emitted_rows=0, violations_total=0, violations=[])


def run(ctx):
    build("vadt")
    if ctx.replay:
        run_harness(ctx, "vadt", ["c13", "--replay", ctx.replay, "--out", ctx.path("res.json")])
        res = json.load(open(ctx.path("res.json")))
        for v in res["violations"]:
            report_violation(ctx, v, key=v.get("known_key"))
        write_evidence(ctx, "model_checking", {"states": 1, "transitions": 1, "traces_validated_against_impl": res["evaluations"],
                                               "samples": [json.load(open(ctx.replay)).get("case")]})
        return
    w = 4 if ctx.quick else 8
    cfg = ctx.path("exh.cfg")
    exh = EXH if ctx.quick else EXH_T
    open(cfg, "w").write(cfg_text(exh, ["SpecOK", "Emit"]))
    rc = tlc_must_pass(ctx, "adt/GroupValues", cfg=cfg, workers=w, deadlock=False, coverage=True, tag="exh", timeout=3000)
    cases = tlc_cases(rc.out)
    n_exh = len(cases)
    ops_seen = {o["op"] for c in cases for o in c["ops"]}
    if ops_seen != {"intern", "emit_all", "emit_first", "clear"} or n_exh < 1000:
        raise ToolError(f"vacuity: exhaustive run produced {n_exh} histories with operations {ops_seen}")
    sims = []

    def one_sim(ic):
        i, c = ic
        cfg = ctx.path(f"sim{i}.cfg")
        open(cfg, "w").write(cfg_text(c, ["SpecOK", "Emit"], spec="SimSpec"))
        num = 150 if ctx.quick else 1500
        r = tlc(ctx, "adt/GroupValues", cfg=cfg, workers=1, deadlock=False, tag=f"sim{i}", timeout=3000,
                mode_args=["-simulate", f"num={num}", "-depth", str(c["MAXOPS"] + 1), "-seed", str(ctx.seed + i)])
        return c, r

    from concurrent.futures import ThreadPoolExecutor
    with ThreadPoolExecutor(max_workers=4) as ex:
        results = list(ex.map(one_sim, enumerate(SIMS if ctx.quick else SIMS_T)))
    for c, r in results:
        cs = tlc_cases(r.out)
        if r.invariant_violated or not cs:
            sys.stderr.write(r.out[-3000:])
            raise ToolError("TLC simulation of GroupValues failed")
        uniq = list({json.dumps(x, sort_keys=True): x for x in cs}.values())
        sims.append({"constants": c, "histories": len(uniq)})
        cases += uniq
    write_ndjson(ctx.path("cases.ndjson"), cases)
    res = harness_all(ctx, ctx.path("cases.ndjson"), ["--raw", "--targets-per-case", 5 if ctx.quick else 40])
    n_unknown = 0
    for v in res["violations"]:
        if v.get("known_key"):
            report_violation(ctx, v, key=v["known_key"])
        elif n_unknown < 5:
            n_unknown += 1
            report_violation(ctx, v)
    if res["targets_never_run"] or res["min_histories_per_target"] < 15:
        raise ToolError(f"coverage: targets never run {res['targets_never_run']}, min histories per target {res['min_histories_per_target']}")
    # known findings: minimal raw histories (no call discipline), each must still fail to be reported
    known_hit = []
    for key, target, case in KNOWN:
        p = ctx.path("known.ndjson")
        write_ndjson(p, [case])
        s, pr = run_harness(ctx, "vadt", ["c13", "--in", p, "--out", ctx.path("known.json"), "--raw", "--target", target], check=False)
        if pr.returncode != 0:
            raise ToolError("known-finding reproduction crashed the harness")
        kr = json.load(open(ctx.path("known.json")))
        if kr["evaluations"] != 1:
            raise ToolError(f"known-finding reproduction did not run on {target}")
        if kr["violations_total"]:
            v = kr["violations"][0]
            report_violation(ctx, v, key=key)
            known_hit.append({"key": key, "target": target, "observed": v["oracle"][:200]})
    write_evidence(ctx, "model_checking", {
        "states": rc.distinct, "transitions": rc.generated,
        "traces_validated_against_impl": res["evaluations"],
        "samples": [c for c in cases if c["ncol"] == 2 and any(o["op"] == "emit_first" and o["pre"] > o["arg"] for o in c["ops"])][:1],
        "exhaustive": True, "exhaustive_scope": exh, "exhaustive_histories": n_exh, "simulated": sims,
        "histories_generated": len(cases), "history_x_implementation_replays": res["evaluations"],
        "operations_checked_on_real_code": res["ops"], "emitted_rows_compared": res["emitted_rows"],
        "implementation_targets": res["targets"], "targets_by_family": res["families"], "min_histories_per_target": res["min_histories_per_target"],
        "unsupported_targets_dropped_at_calibration": res["unsupported_targets"],
        "skipped_pool_too_small": res["skipped_pool_too_small"],
        "intern_calls_numbering_new_keys_out_of_first_seen_order": res["intern_calls_numbering_new_keys_out_of_first_seen_order"],
        "histories_stopped_after_order_deviation": res["histories_stopped_after_order_deviation"],
        "distinct_nontrivial": res["distinct_nontrivial"], "process_aborts": res["process_aborts"],
        "known_findings_reproduced": known_hit, "violations_total": res["violations_total"],
        "rule": "a case is a complete operation history of GroupValues.tla replayed on one implementation target (schema x constructor); non-trivial = the history emits or clears a non-empty store; distinct = distinct histories",
    }, assumptions=[
        "the main replay is raw (--raw): histories are replayed exactly, without the aggregation operators' call discipline (emit(All) directly followed by clear_shrink); the three call-discipline defects and the emit(First n) collision-list defect were repaired in /repo (known_findings.json `fixed`), their minimal histories are still replayed separately on every run and would be reported if they failed again",
        "emit is only issued after at least one intern on the store (GroupValuesRows has no row buffer before the first intern)",
        "unseen keys of one batch must receive exactly the ids pre..pre+k (any order); GroupValuesColumn<false> numbers them out of first-seen order under hash collisions (e.g. NULL list vs empty list), which the property allows",
        "floating point pools contain NaN (one bit pattern, one key) but not -0.0: GroupValuesPrimitive canonicalizes -0.0 to +0.0 while the row-backed nested columns document a different treatment, so the property text does not fix the expected answer",
        "binding demonstrated while building: on the pinned tree the raw replay flagged 549 histories (three defects) and the thorough tier a fourth; corrupting expected ids/emitted keys is flagged by the harness",
    ])
