"""C16 — spill channels deliver every spilled batch exactly once and terminate.

1. TLC model-checks spec/proto/SpillPool.tla (implementation-grain; FIXED = the repaired error paths)
   exhaustively: safety invariants, deadlock freedom and liveness under weak fairness, with push
   faults enabled at every push.
2. B1: TLC random walks (complete behaviours) are replayed as *schedules* on the real
   spsc_channel/mpsc_channel under the controlled scheduler (hooks `sp_*` before every lock
   region; faults through the cfg write-failure switch), plus seeded random schedules.
3. Oracle on the real execution: nothing invented/duplicated, single-writer FIFO, end-of-stream only
   after all successfully pushed batches were read, exact deadlock detection (lost wake-up / orphan file).
"""
import json, os
from common import *

CONFIGS_Q = [dict(W=1, NB=3, ROT=2), dict(W=2, NB=2, ROT=2), dict(W=1, NB=3, ROT=1), dict(W=3, NB=1, ROT=2)]
CONFIGS_T = CONFIGS_Q + [dict(W=2, NB=3, ROT=2), dict(W=2, NB=2, ROT=1), dict(W=3, NB=2, ROT=3), dict(W=1, NB=4, ROT=3)]


def cfg_text(c, spec, invs, props=(), view=True, maxio=0):
    s = f"CONSTANTS W = {c['W']}  NB = {c['NB']}  ROT = {c['ROT']}  FAILS = TRUE  MAXF = {c['W']*c['NB']+1}  MAXIO = {maxio}  FIXED = TRUE\n"
    s += f"SPECIFICATION {spec}\n"
    if view:
        s += "VIEW view\n"
    s += "INVARIANTS " + " ".join(invs) + "\n"
    if props:
        s += "PROPERTIES " + " ".join(props) + "\n"
    return s


INVS = ["TypeOK", "NoInvention", "NoDuplicate", "FifoSPSC", "EosComplete", "NoLostWaker"]


def run(ctx):
    build("vproto")
    if ctx.replay:
        summary, _ = run_harness(ctx, "vproto", ["c16", "--replay", ctx.replay, "--out", ctx.path("res.json")])
        res = json.load(open(ctx.path("res.json")))
        for v in res["violations"]:
            report_violation(ctx, v)
        write_evidence(ctx, "model_checking", {"states": 1, "transitions": 1, "traces_validated_against_impl": res["evaluations"],
                                               "samples": res["samples"]})
        return
    # 1. exhaustive model checking of the design
    states = transitions = 0
    mc = []
    exh = [dict(W=2, NB=2, ROT=2, IO=0), dict(W=1, NB=3, ROT=2, IO=2)]
    if not ctx.quick:
        exh += [dict(W=1, NB=4, ROT=2, IO=1), dict(W=2, NB=3, ROT=2, IO=0), dict(W=3, NB=1, ROT=1, IO=1), dict(W=2, NB=2, ROT=1, IO=1)]
    taken = {}
    for i, c in enumerate(exh):
        cfg = ctx.path(f"mc{i}.cfg")
        open(cfg, "w").write(cfg_text(c, "Spec", INVS, ["ReaderTerminates", "DeliversAll"], maxio=c["IO"]) + "CHECK_DEADLOCK TRUE\n")
        r = tlc_must_pass(ctx, "proto/SpillPool", cfg=cfg, workers=8 if ctx.quick else 14, timeout=3000, coverage=True, tag=f"mc{i}")
        states += r.distinct
        transitions += r.generated
        mc.append({"constants": c, "distinct_states": r.distinct, "generated": r.generated, "wall_s": round(r.wall, 1)})
        for a, (d, t) in r.action_counts().items():
            taken[a] = taken.get(a, 0) + t
    never = [a for a, t in taken.items() if t == 0]
    if never:
        raise ToolError(f"vacuity: specification actions never taken: {never}")
    # 2. behaviours -> schedules
    behaviours = []
    n_per = 150 if ctx.quick else 3000
    for i, c in enumerate(CONFIGS_Q if ctx.quick else CONFIGS_T):
        cfg = ctx.path(f"sim{i}.cfg")
        open(cfg, "w").write(cfg_text(c, "SimSpec", ["EmitWhenDone"] + INVS[1:], view=False) + "CHECK_DEADLOCK FALSE\n")
        r = tlc(ctx, "proto/SpillPoolSim", cfg=cfg, workers=1, deadlock=False, tag=f"sim{i}",
                mode_args=["-simulate", f"num={n_per}", "-depth", "300", "-seed", str(ctx.seed + i)], timeout=900)
        if "Error:" in r.out and "CASE" not in r.out:
            sys.stderr.write(r.out[-3000:])
            raise ToolError("TLC simulation failed")
        for b in tlc_cases(r.out):
            b["steps"] = [[f"{k}{n}", l] for (k, n, l) in b["steps"]]
            b["origin"] = f"tlc-simulate cfg={c} seed={ctx.seed + i}"
            behaviours.append(b)
    # de-duplicate schedules
    uniq = {json.dumps(b["steps"]) + str(b["W"]) + str(b["rot"]): b for b in behaviours}
    behaviours = list(uniq.values())
    write_ndjson(ctx.path("behaviours.ndjson"), behaviours)
    nrandom = 300 if ctx.quick else 5000
    summary, _ = run_harness(ctx, "vproto", ["c16", "--behaviours", ctx.path("behaviours.ndjson"), "--random", nrandom,
                                              "--out", ctx.path("res.json"), "--traces", ctx.path("traces.ndjson")], timeout=3000)
    res = json.load(open(ctx.path("res.json")))
    if res["tool_errors"]:
        raise ToolError("harness machinery errors: " + "; ".join(res["tool_errors"][:3]))
    for v in res["violations"]:
        report_violation(ctx, v)
    # 3. B2: every real execution (events = executed lock regions + API observations) must be a
    #    behaviour of SpillPool; all invariants are evaluated in every matched state.
    traces = read_ndjson(ctx.path("traces.ndjson"))
    groups = {}
    for t in traces:
        groups.setdefault((t["W"], t["rot"]), []).append({"ev": t["ev"]})
    validated = rejected = tstates = 0
    rejects = []
    for (w, rot), runs in sorted(groups.items()):
        tp = ctx.path(f"trace-{w}-{rot}.ndjson")
        write_ndjson(tp, runs)
        cfg = ctx.path(f"trace-{w}-{rot}.cfg")
        open(cfg, "w").write(cfg_text(dict(W=w, NB=4, ROT=rot), "TraceSpec", INVS, view=False, maxio=100000)
                             .replace(f"MAXF = {w*4+1}", f"MAXF = {w*4+1}") + "ALIAS Alias\nCHECK_DEADLOCK TRUE\n")
        r = tlc_trace_validate(ctx, "proto/SpillPoolTrace", cfg, tp, tag=f"trace-{w}-{rot}")
        tstates += r.distinct
        if r.invariant_violated:
            sys.stderr.write(r.out[-4000:])
            rejects.append({"W": w, "rot": rot, "kind": "invariant " + ",".join(r.invariant_violated)})
        if r.deadlock:
            rejected += 1
            m = re.search(r"/\\ run = (\d+)\n/\\ l = (\d+)\n/\\ next_event = (.*)\n(?!.*/\\ run = )", r.out, re.S)
            rejects.append({"W": w, "rot": rot, "kind": "unmatched event", "detail": r.out[-1500:]})
        elif not r.ok:
            sys.stderr.write(r.out[-4000:])
            raise ToolError("trace validation run failed")
        else:
            validated += len(runs)
    conform = {"runs_validated": validated, "groups_rejected": rejected, "trace_states": tstates, "rejections": rejects[:3]}
    write_evidence(ctx, "model_checking", {
        "states": states, "transitions": transitions,
        "traces_validated_against_impl": res["evaluations"],
        "samples": res["samples"][:2],
        "exhaustive": True,
        "model_checking_runs": mc,
        "schedules_replayed_from_tlc": len(behaviours),
        "random_schedules": nrandom,
        "distinct_real_executions": res["distinct_schedules"],
        "real_steps": res["steps"], "drift_steps": res["drift_steps"],
        "hook_sites_hit": res["sites"],
        "trace_validation_B2": conform,
        "rule": "a case is a complete schedule (TLC behaviour of SpillPool or seeded random schedule with faults) executed on the real channel; distinct = distinct executed <process,label> sequences",
    }, assumptions=[
        "hook points sit immediately before each lock region of spill_pool.rs; interleavings inside a lock region are not explored",
        "faults are OS-level write failures injected by the cfg switch in FileSpillWriter::write (append failure, failure of the 8-byte end-of-stream write at rotation)",
        "TLC model uses FIXED=TRUE (error paths finalise the popped file); the pinned behaviour (FIXED=FALSE) deadlocks in the model and on the real code (known_findings.json: fixed)",
    ])
